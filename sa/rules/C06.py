"""C06 - At most one .do runs for a given target at any time (lock discipline of the parent redo)."""
import re

import anchors
from core import (BA, call_matches, callee_paths, op_local, op_place, op_const, const_str, taint, closure_sites,
                  upvar_index, place_fields, rvalue_places, field_reads)
from facts import strip_generics
from typestate import LockTS, derive_preconditions, LOCK, lockts_with_lends
from rules import common

EXPLANATION = (
    "Static lock-discipline rules on the MIR of the scheduler (builder::run), BuildJob::start_self / "
    "start_deps_unlocked and state::Lock: typestate of every Lock moved into a BuildJob (owned at construction), "
    "value flow from the target's File::id() to the lock id, must-pass-through of the record re-read between "
    "acquisition and start, dominance of every Lock drop by the job's await and (after record_new_state) by the "
    "transaction commit, no abandonment of job futures, who-may-call force_owned, and the type-level facts "
    "(no Clone/Copy, Drop unlocks iff owned). Decides these structural necessary conditions on every control-flow "
    "path; does NOT decide non-overlap over all interleavings of several process trees (kernel fcntl semantics assumed)."
)
ASSUMPTIONS = [
    "fcntl byte-range locks give mutual exclusion between processes and are released by the kernel on process death",
    "a panic (unwind edge) is a different failure and is excluded from path rules",
    "NFS/WSL broken-lock environments are out of scope",
]


def lock_operand_local(S, stmt, field):
    rv = stmt["rv"]
    idx = rv["fields"].index(field)
    return rv["ops"][idx]


def trace_moves(ba, l):
    """Follow whole-local `x = move y` / `x = copy y` chains backwards to the original local."""
    seen = set()
    while l not in seen:
        seen.add(l)
        d = ba.single_def(l)
        if d is None or d[0] != "stmt" or d[3]["k"] != "use":
            return l
        p = op_place(d[3]["op"])
        if p is None or p["p"]:
            return l
        l = p["l"]
    return l


def run(ctx):
    prog = ctx.prog
    S = anchors.scheduler(prog)
    ba = BA.of(S)
    pre = derive_preconditions(prog)

    ctx.rule("R6.1", "every BuildJob is constructed with a Lock that is owned on all paths reaching the construction (typestate from try_lock/is_owned)")
    ctx.rule("R6.2", "the lock's id derives from File::id() of the record looked up for the same target that is moved into the BuildJob, with no offset")
    ctx.rule("R6.3", "between obtaining the lock and BuildJob::start the file record is re-read (File::refresh / File::from_id)")
    ctx.rule("R6.4", "the job coroutine owns the Lock; every drop of it is dominated by the completed await of the job and, after record_new_state, by the transaction commit")
    ctx.rule("R6.5", "job futures (which own the locks) are never dropped unfinished: no return from the scheduler between a push and the drain")
    ctx.rule("R6.6", "Lock::force_owned is called only by the scheduler on the env.unlocked side; REDO_UNLOCKED is set only by redo-unlocked, for the primary target only")
    ctx.rule("R6.7", "the forked child closures reach no Lock method that changes fcntl state; the lock file descriptor is close-on-exec")
    ctx.rule("R6.8", "Lock is neither Clone nor Copy; impl Drop for Lock unlocks iff owned")

    sites = anchors.agg_sites(S, r"builder::BuildJob")
    ctx.floor("R6.1", "BuildJob construction sites", len(sites), 2)
    start_key = anchors.job_start(prog).key
    named_sites = common.ordinal_keys([("BuildJob", s) for s in sites])
    for name, (bb, idx, stmt) in named_sites:
        lop = lock_operand_local(S, stmt, "lock")
        ll = op_local(lop)
        root = trace_moves(ba, ll)
        newlocks = [d for d in ba.defs.get(root, []) if d[0] == "call" and call_matches(d[2], r"state::ProcessState::new_lock")]
        # the lock may instead be the result of an awaited nested coroutine (the acquisition loop as an `async fn`
        # awaited in place): the typestate is then decided in that coroutine up to its Ok returns and, from the await's
        # Ready edge on, in this body (LockHandoff)
        ho = LockHandoff.find(prog, S, root, pre) if not newlocks else None
        if ho is None:
            ts, _lent = lockts_with_lends(prog, S, [root], pre)
            st = ts.state_at(bb)
            ok = st is not None and st <= {"O"}
            ctx.ob("R6.1", "%s|%s" % (S.key, name), ok, where=ctx.where(S, bb),
                   detail="lock `%s` state at construction: %s" % (S.local_name(root), sorted(st) if st else "untracked (not created by new_lock in this body)"))
        else:
            ts = ho
            chg = ho.state_changes_before(bb)
            ok = ho.ret_state is not None and ho.ret_state <= {"O"} and not chg
            ctx.ob("R6.1", "%s|%s" % (S.key, name), ok, where=ctx.where(S, bb),
                   detail="lock handed over by the awaited coroutine %s in state %s on every Ok return; %s" % (
                       ho.C.key, sorted(ho.ret_state) if ho.ret_state else "untracked",
                       "no Lock method changes it between the await and the construction" if not chg else
                       "changed before the construction by %s" % [common.short(callee_paths(S.blocks[j]["term"])[0]) for j in chg]))

        # ---- R6.2 value flow
        n_new = len(newlocks) if ho is None else len(ho.newlocks)
        if not ctx.ob("R6.2", "%s|%s|lock-created-by-new_lock" % (S.key, name), n_new == 1, where=ctx.where(S, bb),
                      detail="%d new_lock definitions of the lock local%s" % (n_new, "" if ho is None else " (in the awaited coroutine %s)" % ho.C.key)):
            continue
        if ho is None:
            nl_bb, nl_t = newlocks[0][1], newlocks[0][2]
            id_op = nl_t["args"][1]
            extra_arith = []
        else:
            # the id operand of the coroutine's new_lock is one of its captured values: continue with the operand
            # captured for it at the construction site in this body
            nl_bb = ho.poll_bb
            id_op, extra_arith = ho.id_operand_in_parent()
            if not ctx.ob("R6.2", "%s|%s|id-captured-from-scheduler" % (S.key, name), id_op is not None, where=ctx.where(S, nl_bb),
                          detail="the lock id used in %s is a value captured from the scheduler" % ho.C.key if id_op is not None else
                          "the lock id used in %s is not (only) a value captured from the scheduler" % ho.C.key):
                continue
        # backward direct slice of the id operand
        slice_locals, origins, arith = backward_direct(S, op_local(id_op))
        arith = list(extra_arith) + list(arith)
        id_calls = [o for o in origins if o[0] == "call" and call_matches(o[2], r"state::File::id")]
        other = [o for o in origins if not (o[0] == "call" and call_matches(o[2], r"state::File::id|alloc::collections::vec_deque::VecDeque::pop_front"))]
        ctx.ob("R6.2", "%s|%s|no-offset" % (S.key, name), not arith, where=ctx.where(S, nl_bb),
               detail="lock id computed with arithmetic %s" % arith if arith else "no arithmetic on the id")
        t_op = lock_operand_local(S, stmt, "t")
        sf_op = lock_operand_local(S, stmt, "sf")
        t_root = direct_root(S, op_local(t_op))
        # forward derived taint from the target name local: must reach lock id, sf
        seeds = {t_root}
        # when the target comes out of the locked queue, the popped element is the seed
        pops = [o for o in origins if o[0] == "call" and call_matches(o[2], r"alloc::collections::vec_deque::VecDeque::pop_front")]
        if pops:
            seeds = {pops[0][2]["dest"]["l"]}
        tnt = taint(S, seeds=seeds, mode="derived")
        ctx.ob("R6.2", "%s|%s|id-from-target" % (S.key, name), op_local(id_op) in tnt and (bool(id_calls) or bool(pops)), where=ctx.where(S, nl_bb),
               detail="lock id %s derive from the job's target (%s); origins: %s" % (
                   "does" if op_local(id_op) in tnt else "does NOT", S.local_name(next(iter(seeds))),
                   [common.short(callee_paths(o[2])[0]) if o[0] == "call" else o[0] for o in origins]))
        ctx.ob("R6.2", "%s|%s|record-from-target" % (S.key, name), op_local(sf_op) in tnt and op_local(t_op) in tnt, where=ctx.where(S, bb),
               detail="BuildJob.sf / BuildJob.t derive from the same target value as the lock id")
        if pops:
            # the queue is filled with (File::id(f), t) where f = from_name(t)
            pushes = ba.calls(r"alloc::collections::vec_deque::VecDeque::push_back")
            okp = bool(pushes)
            for pb in pushes:
                arg = S.blocks[pb]["term"]["args"][1]
                sl, org, ar = backward_direct(S, op_local(arg))
                has_id = any(o[0] == "call" and call_matches(o[2], r"state::File::id") for o in org)
                okp = okp and has_id and not ar
            ctx.ob("R6.2", "%s|%s|queue-holds-file-id" % (S.key, name), okp, where=ctx.where(S, pushes[0]) if pushes else S.span,
                   detail="every push to the locked queue stores File::id() of the record (no arithmetic)")

        # ---- R6.3 re-read under the lock
        starts = [i for i in ba.calls(re.escape(start_key)) if ba.dominates(bb, i)]
        owned_entry = None
        for (sw, t_t, f_t, cbb) in ba.switches_on_call(r"state::Lock::is_owned"):
            if ts.is_recv(S.blocks[cbb]["term"]) and ba.dominates(t_t, bb):
                if owned_entry is None or ba.dominates(owned_entry, t_t):
                    owned_entry = t_t
        if owned_entry is None and ho is not None and ho.ret_state is not None and ho.ret_state <= {"O"} and ho.ready is not None and ba.dominates(ho.ready, bb):
            # ownership is established inside the awaited coroutine (its is_owned() loop): in this body the lock is owned
            # from the completion of that await on
            owned_entry = ho.ready
        owned_entries = [owned_entry] if owned_entry is not None else []
        if owned_entry is None and ho is None:
            # ownership established on several paths that join before the construction (`if !lock.is_owned() { wait for it }`):
            # by typestate, the blocks entered *owned* from a block that could be entered not owned, on the way to the
            # construction; every one of them starts the region in which the record must be re-read
            for a in sorted(ba.live):
                sa_ = ts.state_at(a)
                if not sa_ or "U" not in sa_:
                    continue
                for x in S.succ(a):
                    sx = ts.state_at(x)
                    if sx and sx <= {"O"} and ba.path([x], [bb], incl=True) is not None:
                        owned_entries.append(x)
            owned_entries = sorted(set(owned_entries))
            if owned_entries and (ts.state_at(bb) or {"U"}) <= {"O"}:
                owned_entry = owned_entries[0]
        if ctx.ob("R6.3", "%s|%s|anchors" % (S.key, name), bool(starts) and owned_entry is not None, where=ctx.where(S, bb),
                  detail="is_owned() true edge dominating the construction and the following BuildJob::start call found" if starts and owned_entry is not None
                  else "no is_owned() test dominates the construction / no start call follows"):
            rereads = set(ba.calls(r"state::File::(refresh|from_id)"))
            p = ba.path(owned_entries, starts, avoid=frozenset(rereads), incl=True)
            ctx.ob("R6.3", "%s|%s|re-read" % (S.key, name), p is None, where=ctx.where(S, starts[0]),
                   detail="a path from lock ownership to BuildJob::start skips File::refresh/from_id" if p else "record re-read on every path from ownership to start",
                   witness={"path": p[:15] if p else None})
            # the re-read record is the one moved into the job
            sf_alias, _, _ = backward_direct(S, op_local(sf_op))
            ok_rr = False
            for rb in rereads:
                if not ((owned_entry in ba.dom.get(rb, ()) or len(owned_entries) > 1) and ba.dominates(rb, bb)):
                    continue
                t = S.blocks[rb]["term"]
                if call_matches(t, r"state::File::refresh"):
                    if ba.base_local_of_ref(op_local(t["args"][0])) in sf_alias:
                        ok_rr = True
                else:
                    sl, org, ar = backward_direct(S, op_local(sf_op))
                    if any(o[0] == "call" and o[1] == rb for o in org):
                        ok_rr = True
            ctx.ob("R6.3", "%s|%s|re-read-is-job-record" % (S.key, name), ok_rr, where=ctx.where(S, bb),
                   detail="the record moved into the BuildJob is the one re-read under the lock" if ok_rr else "BuildJob.sf is not the re-read record")

    future_owns_lock(ctx, "R6.4")
    # ---- R6.4 drop discipline inside the job coroutines
    for role, getter in (("result-recorder", anchors.result_recorder), ("unlocked-waiter", anchors.unlocked_waiter)):
        try:
            co = getter(prog)
        except __import__("facts").AnchorError as e:
            ctx.ob("R6.4", "%s|coroutine-present" % role, False, detail="the coroutine that waits for the job while holding the lock is gone: %s" % e)
            continue
        check_lock_drops(ctx, prog, role, co)

    # ---- R6.5
    common.no_abandonment(ctx, "R6.5", S)

    # ---- R6.6
    callers = anchors.bodies_calling(prog, r"state::Lock::force_owned")
    ctx.ob("R6.6", "who-may-call-force_owned", [b.key for b in callers] == [S.key], where=", ".join(b.span for b in callers),
           detail="callers: %s" % [b.key for b in callers])
    for i in ba.calls(r"state::Lock::force_owned"):
        ok = False
        for sw in sorted(ba.live):
            bs = ba.bool_switch(sw)
            if not bs:
                continue
            t_t, f_t, (kind, info) = bs
            if kind == "place" and place_fields(info) and place_fields(info)[-1] == "env::Env.unlocked":
                if ba.edge_dominates((sw, t_t), i) and t_t != f_t:
                    ok = True
        ctx.ob("R6.6", "%s|force_owned-under-env.unlocked" % S.key, ok, where=ctx.where(S, i),
               detail="force_owned() is dominated by the true edge of a test of env.unlocked" if ok else "force_owned() reachable without env.unlocked being true")
    unlocked_setters = [(b, i) for (b, i) in env_setters(prog, "REDO_UNLOCKED") if env_set_value(b, i) != ""]
    ctx.ob("R6.6", "who-sets-REDO_UNLOCKED", sorted({b.key for b, _ in unlocked_setters}) == ["@bin::unlocked::run"],
           where=", ".join(ctx.where(b, i) for b, i in unlocked_setters), detail="bodies setting a non-empty REDO_UNLOCKED: %s" % sorted({b.key for b, _ in unlocked_setters}))
    # the flag is consumed: Env::inherit clears it on every successful return so that grandchildren do not inherit it
    inh = prog.one(r"env::Env::inherit")
    iba = BA.of(inh)
    clears = [i for (b, i) in env_setters(prog, "REDO_UNLOCKED") if b.key == inh.key and env_set_value(b, i) == ""]
    oks = ok_result_blocks(inh)
    p = iba.path([0], oks, avoid=frozenset(clears), incl=True) if oks else [0]
    ctx.ob("R6.6", "Env::inherit|REDO_UNLOCKED-not-inherited", bool(clears) and p is None, where=inh.span,
           detail="REDO_UNLOCKED is reset before every Ok return of Env::inherit" if clears and p is None else "REDO_UNLOCKED leaks to subprocesses: every nested redo-ifchange would skip locking")
    primary_target_rule(ctx, "R6.6")

    # ---- R6.7
    fcs = anchors.fork_closures(prog)
    ctx.floor("R6.7", "closures handed to JobServerHandle::start", len(fcs), 2)
    for parent, cbb, cl in fcs:
        reach = ctx.cg.reachable([cl.key], indirect=False)
        bad = sorted(k for k in reach if re.fullmatch(r"state::Lock::(unlock|try_lock|wait_lock|force_owned)", k))
        ctx.ob("R6.7", "%s|no-lock-ops-in-child" % cl.key, not bad, where=cl.span, detail="child closure reaches %s" % bad if bad else "no Lock state change reachable (%d bodies)" % len(reach))
    lm = anchors.lock_opener(prog)
    lba = BA.of(lm)
    coe = [i for i in lba.calls(r"helpers::close_on_exec") if S is not None and op_const(lm.blocks[i]["term"]["args"][1]) and op_const(lm.blocks[i]["term"]["args"][1]).get("bool") is True]
    oks = ok_result_blocks(lm)
    p = lba.path([0], oks, avoid=frozenset(coe), incl=True) if oks else [0]
    ctx.ob("R6.7", "LockManager::open|close-on-exec", bool(coe) and p is None, where=lm.span,
           detail="close_on_exec(fd, true) precedes every Ok return" if coe and p is None else "lock fd may be inherited across exec")

    # ---- R6.8
    adt = prog.adts.get("state::Lock")
    if ctx.ob("R6.8", "Lock-adt-present", adt is not None, detail="state::Lock found" if adt else "no ADT state::Lock"):
        traits = {i["trait"] for i in adt["impls"]}
        ctx.ob("R6.8", "Lock-not-Clone-Copy", not ({"core::clone::Clone", "core::marker::Copy"} & traits), where=adt["line"], detail="impls: %s" % sorted(traits))
        ctx.ob("R6.8", "Lock-has-Drop", "core::ops::drop::Drop" in traits, where=adt["line"], detail="impls: %s" % sorted(traits))
    db = prog.find(r"<state::Lock as core::ops::drop::Drop>::drop")
    if ctx.ob("R6.8", "Lock-drop-body", len(db) == 1, detail="%d drop bodies" % len(db)):
        d = db[0]
        dba = BA.of(d)
        un = dba.calls(r"state::Lock::unlock")
        ok = False
        # the ownership test: a read of the Lock's ownership field (the field(s) of Lock that `is_owned` reports,
        # whatever their name and type), or a call of `is_owned` on the value being dropped
        own = ownership_fields(prog)
        tests = []
        for sw in sorted(dba.live):
            bs = dba.bool_switch(sw)
            if not bs:
                continue
            t_t, f_t, (kind, info) = bs
            if kind == "place" and place_fields(info)[-1:] and place_fields(info)[-1] in own:
                tests.append((sw, t_t, f_t))
        for (sw, t_t, f_t, cbb) in common.switches_on_call_value(d, r"state::Lock::is_owned"):
            if 1 in dba.ref_chain(op_local(d.blocks[cbb]["term"]["args"][0])) or dba.base_local_of_ref(op_local(d.blocks[cbb]["term"]["args"][0])) == 1:
                tests.append((sw, t_t, f_t))
        for (sw, t_t, f_t) in tests:
            if t_t != f_t:
                if un and all(dba.edge_dominates((sw, t_t), u) for u in un):
                    # and the owned side cannot reach return without unlocking
                    p = dba.path([t_t], dba.returns(), avoid=frozenset(un), incl=True)
                    ok = ok or p is None
        ctx.ob("R6.8", "Lock-drop-unlocks-iff-owned", ok, where=d.span, detail="drop: unlock() exactly on the owned side" if ok else "drop does not unlock exactly when owned")


class LockHandoff:
    """A Lock that body S receives as the Ok value of an awaited coroutine C built in S (`let lock = self.acquire(..)
    .await?`): what the typestate needs on both sides of the hand-over.

      C            the coroutine body;  poll_bb / ready: the await's poll block and Ready block in S
      newlocks     the new_lock calls of C whose result is the returned lock
      ret_state    typestate of that lock at the Ok returns of C (LockTS inside C), None if untracked
      aliases      locals of S holding the received lock (whole-local moves from the await's payload)
    """

    @classmethod
    def find(cls, prog, S, root, pre):
        ba = BA.of(S)
        orgs = common.value_origins(S, root)
        polls = [(bb, t) for (k, bb, t) in orgs if k == "callpay" and t.get("macro") == "desugar:Await"]
        if not orgs or len(polls) != len(orgs) or len({bb for bb, _ in polls}) != 1:
            return None
        poll_bb, t = polls[0]
        C = prog.bodies.get(strip_generics(t.get("resolved") or t.get("callee") or ""))
        if C is None or not C.coroutine or len(closure_sites(S, C.key)) != 1:
            return None
        self = cls()
        self.prog, self.S, self.C, self.poll_bb = prog, S, C, poll_bb
        self.ready = next((r for (p_, y, r, c) in ba.awaits() if p_ == poll_bb), None)
        # the lock C returns: origins of the Ok payload of its return place (error exits build the value by from_residual)
        corg = [(k, b_, t_) for (k, b_, t_) in common.value_origins(C, 0, pend=(("Ok", "0"),))
                if not (k == "callpay" and call_matches(t_, r"(<.* as )?core::ops::try_trait::FromResidual(<.*>)?>?::from_residual"))]
        self.newlocks = [(b_, t_) for (k, b_, t_) in corg if k == "call" and call_matches(t_, r"state::ProcessState::new_lock")]
        self.other_origins = [(k, b_) for (k, b_, t_) in corg if not (k == "call" and call_matches(t_, r"state::ProcessState::new_lock"))]
        self.ret_state = None
        if self.newlocks and not self.other_origins:
            cts = LockTS(prog, C, [t_["dest"]["l"] for (_, t_) in self.newlocks], preconds=pre)
            oks = common.ok_returns(C)
            sts = [cts.state_at(b_) for b_ in oks]
            if oks and all(x is not None for x in sts):
                self.ret_state = set().union(*sts)
        # aliases in S: forward over whole-local moves from the payload local
        al = {root}
        changed = True
        while changed:
            changed = False
            for blk in S.blocks:
                for st in blk["stmts"]:
                    if st["s"] == "assign" and not st["place"]["p"] and st["rv"]["k"] == "use":
                        p = op_place(st["rv"]["op"])
                        if p is not None and not p["p"] and p["l"] in al and st["place"]["l"] not in al:
                            al.add(st["place"]["l"])
                            changed = True
        self.aliases = al
        return self

    def is_recv(self, t):
        """Does call `t` take the handed-over lock as its receiver?"""
        if not t["args"]:
            return False
        l = op_local(t["args"][0])
        if l is None:
            return False
        return l in self.aliases or any(x in self.aliases for x in BA.of(self.S).ref_chain(l))

    def state_changes_before(self, bb):
        """Blocks of S that call a state-changing Lock method on the handed-over lock on a path from the await's
        completion to block bb that does not pass the await again."""
        ba = BA.of(self.S)
        out = []
        if self.ready is None:
            return [self.poll_bb]
        for j in ba.calls(r"state::Lock::[a-z_]+"):
            t = self.S.blocks[j]["term"]
            if call_matches(t, r"state::Lock::is_owned") or not self.is_recv(t):
                continue
            # (a path that passes the await again holds the *next* lock handed over, not this one)
            if (j == self.ready or ba.path([self.ready], [j], avoid=frozenset([self.poll_bb]), incl=True)) and ba.path([j], [bb], avoid=frozenset([self.poll_bb])):
                out.append(j)
        return out

    def id_operand_in_parent(self):
        """(operand in S captured for the id argument of C's new_lock, arithmetic met inside C), or (None, [])
        when that argument is not a direct copy of exactly one captured variable."""
        C, S = self.C, self.S
        cba = BA.of(C)
        (nb, nt) = self.newlocks[0]
        sl, org, ar = backward_direct(C, op_local(nt["args"][1]))
        ups = set()
        for x in sl:
            for d in cba.defs.get(x, []):
                if d[0] == "stmt":
                    for p in rvalue_places(d[3]):
                        u = upvar_index(p)
                        if u:
                            ups.add(u[0])
        if org or len(ups) != 1:
            return None, []
        ops = closure_sites(S, C.key)[0][4]
        u = next(iter(ups))
        return (ops[u] if 0 <= u < len(ops) and op_local(ops[u]) is not None else None), list(ar)


def ok_result_blocks(body):
    """Blocks that build the `Ok(..)` value the function *returns*: Result::Ok aggregates that reach the return place
    (directly or through whole-local moves). An `Ok(..)` built for some other Result - the value of an inner block, of
    a helper that canon.py spliced in and whose result is then unwrapped with `?` - is not a return of this function."""
    live = BA.of(body).live
    out = {bb for (k, bb, rv) in common.value_origins(body, 0)
           if k == "agg" and rv.get("adt") == "core::result::Result" and rv.get("variant") == "Ok" and bb in live and not body.is_cleanup(bb)}
    return sorted(out)


def ownership_fields(prog):
    """The field(s) of state::Lock that hold its ownership state, by role: the Lock fields that `Lock::is_owned`
    reads (today the bool `owned`; equally an enum-valued field compared against its `held` variant). Falls back to
    the historical field name when there is no such accessor."""
    out = set()
    for b in prog.find(r"state::Lock::is_owned"):
        for blk in b.blocks:
            for s in blk["stmts"]:
                if s["s"] == "assign":
                    for p in rvalue_places(s["rv"]):
                        out.update(f for f in place_fields(p) if f.startswith("state::Lock."))
            t = blk["term"]
            ops = t["args"] if t["t"] == "call" else ([t["discr"]] if t["t"] == "switch" else [])
            for o in ops:
                p = op_place(o)
                if p is not None:
                    out.update(f for f in place_fields(p) if f.startswith("state::Lock."))
    return out or {"state::Lock.owned"}


def future_owns_lock(ctx, rid):
    """The future returned for a forked job owns the target's lock (captured by value)."""
    prog = ctx.prog
    forkers = [b for b in anchors.bodies_calling(prog, anchors.FORK_START) if not b.key.startswith("jobserver::")]
    ctx.floor(rid, "bodies that fork a job", len(forkers), 2)
    for F in forkers:
        fba = BA.of(F)
        forks = fba.calls(anchors.FORK_START)
        owning = []
        for (bb, j, dest, k, ops) in closure_sites(F):
            cb = prog.bodies.get(k)
            if cb is not None and cb.coroutine and any(op_local(o) is not None and F.locals[op_local(o)] == LOCK and "move" in o for o in ops):
                owning.append(bb)
        oks = common.ok_returns(F)
        after_fork_oks = [o for o in oks if any(fba.path([f], [o]) for f in forks)]
        p = fba.path(forks, after_fork_oks, avoid=frozenset(owning)) if after_fork_oks else None
        ctx.ob(rid, "%s|future-owns-lock" % F.key, bool(owning) and p is None and bool(after_fork_oks), where=F.span,
               detail="after the fork every Ok return hands back a coroutine that captured the Lock by value" if owning and p is None else
               "the job is forked but the returned future does not own the target's lock: the lock is released when this function returns, while the job still runs",
               witness={"path": p[:15] if p else None})


def backward_direct(body, l, depth=60):
    """Backward slice of local `l` through value-preserving steps. Returns
    (locals, origins, arithmetic) where origins are the defining calls/aggregates reached that are
    not identity steps, and arithmetic lists binary ops met."""
    from core import IDENTITY_CALLS
    ba = BA.of(body)
    seen = set()
    origins = []
    arith = []
    st = [l]
    while st and len(seen) < depth:
        x = st.pop()
        if x in seen or x is None:
            continue
        seen.add(x)
        for d in ba.defs.get(x, []):
            if d[0] == "stmt":
                rv = d[3]
                if rv["k"] == "binop":
                    arith.append(rv["op"])
                if rv["k"] == "agg" and rv.get("agg") not in ("tuple",):
                    origins.append(("agg", d[1], rv))
                for p in rvalue_places(rv):
                    st.append(p["l"])
            elif d[0] == "call":
                t = d[2]
                if any(IDENTITY_CALLS.fullmatch(p) for p in callee_paths(t)) and not call_matches(t, r"alloc::collections::vec_deque::VecDeque::pop_front"):
                    for a in t["args"]:
                        if op_local(a) is not None:
                            st.append(op_local(a))
                else:
                    origins.append(("call", d[1], t))
            elif d[0] == "yield":
                origins.append(("yield", d[1], d[2]))
    return seen, origins, arith


def direct_root(body, l):
    """The user-visible local an operand local is a direct alias of (through moves/refs/identity calls)."""
    from core import IDENTITY_CALLS
    ba = BA.of(body)
    seen = set()
    while l is not None and l not in seen:
        seen.add(l)
        d = ba.single_def(l)
        if d is None:
            return l
        if d[0] == "stmt":
            ps = rvalue_places(d[3])
            if d[3]["k"] in ("use", "ref", "cast") and len(ps) == 1:
                if ps[0]["l"] == 1 and body.kind == "Closure":
                    return l          # next step is the closure environment: stop at the local
                l = ps[0]["l"]
                continue
            return l
        if d[0] == "call":
            t = d[2]
            if any(IDENTITY_CALLS.fullmatch(p) for p in callee_paths(t)) and t["args"]:
                nl = op_local(t["args"][0])
                nd = ba.single_def(nl) if nl is not None else None
                if nd and nd[0] == "stmt" and any(p["l"] == 1 for p in rvalue_places(nd[3])) and body.kind == "Closure":
                    return l
                l = nl
                continue
            return l
        return l
    return l


def check_lock_drops(ctx, prog, role, co):
    ba = BA.of(co)
    lock_locals = [i for i, ty in enumerate(co.locals) if ty == LOCK]
    # the coroutine must capture a Lock by value
    cap = [e for e in closure_upvar_types(prog, co) if e[1] == LOCK]
    if not ctx.ob("R6.4", "%s|captures-lock" % role, bool(cap), where=co.span,
                  detail="job coroutine owns a Lock upvar (%s)" % [c[0] for c in cap] if cap else "job coroutine does not own the Lock: it is released when the enclosing function returns, i.e. while the job still runs"):
        return
    job_awaits = [(p, y, r, c) for (p, y, r, c) in ba.awaits() if (c and c.endswith("jobserver::Job as core::future::future::Future>::poll")) or _awaits_captured_job(prog, co, p)]
    if not ctx.ob("R6.4", "%s|awaits-job" % role, len(job_awaits) == 1, where=co.span, detail="%d awaits of jobserver::Job" % len(job_awaits)):
        return
    ready = job_awaits[0][2]
    drops = []
    for i in sorted(ba.live):
        t = co.blocks[i]["term"]
        if t["t"] == "drop":
            pl = t["place"]
            if t["ty"] == LOCK or (pl["l"] == 1 and not pl["p"]) or any(f.endswith(".lock") and f.startswith("upvar.") for f in place_fields(pl)):
                drops.append(i)
        elif t["t"] == "call" and call_matches(t, r"state::Lock::unlock|core::mem::drop"):
            if call_matches(t, r"state::Lock::unlock") or (t.get("arg_tys") and t["arg_tys"][0] == LOCK):
                drops.append(i)
    ctx.floor("R6.4", "%s lock release points" % role, len(drops), 1)
    bad = [d for d in drops if not ba.dominates(ready, d)]
    ctx.ob("R6.4", "%s|release-after-await" % role, not bad, where=ctx.where(co, bad[0]) if bad else co.span,
           detail="lock released before the job's exit was awaited" if bad else "all %d release points are dominated by the job await's Ready edge" % len(drops))
    # escapes: moving the lock out of the coroutine to anything but a local binding
    esc = []
    for i in sorted(ba.live):
        blk = co.blocks[i]
        t = blk["term"]
        if t["t"] == "call" and not call_matches(t, r"core::mem::drop"):
            for a, aty in zip(t["args"], t.get("arg_tys", [])):
                if aty == LOCK:
                    esc.append(i)
        for s in blk["stmts"]:
            if s["s"] == "assign" and s["rv"]["k"] == "agg":
                for o in s["rv"]["ops"]:
                    if op_local(o) in lock_locals and "move" in o:
                        esc.append(i)
    ctx.ob("R6.4", "%s|lock-does-not-escape" % role, not esc, where=ctx.where(co, esc[0]) if esc else co.span,
           detail="lock moved out of the job coroutine" if esc else "lock stays in the coroutine")
    rns = ba.calls(re.escape(anchors.record_new_state(prog).key))
    if rns:
        early = [d for d in drops if ba.path([d], rns, incl=False) is not None]
        ctx.ob("R6.4", "%s|no-release-before-recording" % role, not early, where=ctx.where(co, early[0]) if early else co.span,
               detail="no release point precedes record_new_state" if not early else "the lock is released before the job's result is recorded: another redo can decide about the target on stale state")
        commits = set(ba.calls(r"state::ProcessTransaction::commit"))
        commit_ret = {co.blocks[c]["term"].get("target") for c in commits}
        p = ba.path(rns, drops, avoid=frozenset(commits))
        ctx.ob("R6.4", "%s|release-after-commit" % role, bool(commits) and p is None, where=ctx.where(co, rns[0]),
               detail="after record_new_state the lock can be released without committing the transaction" if p or not commits else "every release after record_new_state follows ProcessTransaction::commit",
               witness={"path": p[:15] if p else None})


def _awaits_captured_job(prog, co, poll_bb):
    """The `.await` polled at block poll_bb of coroutine `co` waits for a jobserver::Job by *value*: the polled future
    goes back (moves, borrows, Pin::new_unchecked, into_future) to captured variable(s) for which every construction
    site of `co` captures a jobserver::Job. (An `async fn f(job: impl Future<Output = i32>, ..)` polls through the
    type parameter, so the callee path does not name the Job.)"""
    cba = BA.of(co)
    t = co.blocks[poll_bb]["term"]
    if not t["args"] or op_local(t["args"][0]) is None:
        return False
    sl, org, ar = backward_direct(co, op_local(t["args"][0]))
    if org or ar:
        return False
    ups = set()
    for x in sl:
        for d in cba.defs.get(x, []):
            if d[0] == "stmt":
                for p in rvalue_places(d[3]):
                    u = upvar_index(p)
                    if u:
                        ups.add(u[0])
    if not ups:
        return False
    sites = [(x, st) for x in prog.bodies.values() for st in closure_sites(x, co.key)]
    if not sites:
        return False
    for (parent, (bb, j, dest, k, ops)) in sites:
        for u in ups:
            l = op_local(ops[u]) if 0 <= u < len(ops) else None
            if l is None:
                return False
            if parent.locals[l] == "jobserver::Job":
                continue
            # the operand keeps the spliced helper's parameter type (`impl Future`): follow the value
            psl, porg, par = backward_direct(parent, l)
            if (par or not porg or not any(parent.locals[x] == "jobserver::Job" for x in psl)
                    or not all(o[0] == "call" and "jobserver::Job" in parent.locals[o[2]["dest"]["l"]] for o in porg)):
                return False
    return True


def closure_upvar_types(prog, cl):
    """[(name, type)] of the upvars of closure/coroutine body `cl`, from its construction site."""
    parent = prog.bodies.get(strip_generics(cl.parent or ""))
    out = []
    # the construction site is in the lexical parent, or - when the parent is an `async fn` / helper that canon.py
    # spliced into its callers - in whichever bodies build the closure now
    makers = [parent] if parent is not None else [x for x in prog.bodies.values() if closure_sites(x, cl.key)]
    for parent in makers:
        for (bb, j, dest, k, ops) in closure_sites(parent, cl.key):
            for n, o in enumerate(ops):
                l = op_local(o)
                ty = parent.locals[l] if l is not None else (op_const(o) or {}).get("ty", "?")
                out.append((parent.local_name(l) if l is not None else "const", ty))
    return out


def env_setters(prog, value):
    """[(body, bb)] calls of Command::env / env::set_var whose key constant is `value`."""
    out = []
    for b in prog.bodies.values():
        ba = BA.of(b)
        for i in ba.calls(r"std::process::Command::env|std::env::set_var"):
            t = b.blocks[i]["term"]
            k = t["args"][1] if call_matches(t, r"std::process::Command::env") else t["args"][0]
            s = const_str(k)
            if s is None and op_local(k) is not None:
                # &str local defined from a constant
                d = ba.single_def(op_local(k))
                if d and d[0] == "stmt":
                    for c in [c for c in __import__("core").rvalue_consts(d[3])]:
                        s = c.get("str", s)
            if s == value:
                out.append((b, i))
    return out


def env_set_value(b, i):
    t = b.blocks[i]["term"]
    v = t["args"][2] if call_matches(t, r"std::process::Command::env") else t["args"][1]
    s = const_str(v)
    if s is None and op_local(v) is not None:
        d = BA.of(b).single_def(op_local(v))
        if d and d[0] == "stmt":
            for c in __import__("core").rvalue_consts(d[3]):
                s = c.get("str", s)
    return s


def primary_target_rule(ctx, rid):
    """R1.5 = R3.5 = part of R6.6: in redo-unlocked, the Command that gets REDO_UNLOCKED is given
    the primary target (args.nth(1)) and nothing derived from the remaining-arguments collection."""
    prog = ctx.prog
    U = prog.one(r"@bin::unlocked::run")
    ba = BA.of(U)
    # sites that can execute (core.FAX): when the two Command chains are one helper taking `who owns the lock` as an
    # enum / bool and that helper was spliced into both call sites, each copy has the `.env(REDO_UNLOCKED)` call but
    # only the copy whose argument is the `caller owns it` constant can reach it
    from core import FAX
    feasible = FAX.of(U).live
    setters = [i for b, i in env_setters(prog, "REDO_UNLOCKED") if b.key == U.key and i in feasible]
    if not ctx.ob(rid, "unlocked::run|sets-REDO_UNLOCKED", len(setters) == 1, where=U.span, detail="%d reachable Command::env(REDO_UNLOCKED) sites" % len(setters)):
        return
    env_bb = setters[0]
    # the Command value: trace receiver back to Command::new
    cmd_new = None
    for n in ba.calls(r"std::process::Command::new"):
        if ba.dominates(n, env_bb):
            if cmd_new is None or ba.dominates(cmd_new, n):
                cmd_new = n
    args_calls = [i for i in ba.calls(r"std::process::Command::args?") if ba.dominates(cmd_new, i) and (ba.dominates(i, env_bb) or ba.dominates(env_bb, i))
                  and not any(ba.dominates(cmd_new, m) and ba.dominates(m, i) and m != cmd_new for m in ba.calls(r"std::process::Command::new"))]
    nth = [i for i in ba.calls(r"core::iter::traits::iterator::Iterator::nth")]
    collect = [i for i in ba.calls(r"core::iter::traits::iterator::Iterator::collect")]
    if not ctx.ob(rid, "unlocked::run|anchors", bool(args_calls) and len(nth) == 1 and len(collect) == 1, where=ctx.where(U, env_bb),
                  detail="Command::arg(s) for the unlocked phase, args.nth(1) and the collected remaining args located"):
        return
    prim = taint(U, seeds={U.blocks[nth[0]]["term"]["dest"]["l"]}, mode="derived")
    rest = taint(U, seeds={U.blocks[collect[0]]["term"]["dest"]["l"]}, mode="derived")
    for k, i in common.ordinal_keys([("Command::arg", i) for i in args_calls]):
        t = U.blocks[i]["term"]
        a = op_local(t["args"][1])
        from_prim = a in prim
        from_rest = a in rest
        ctx.ob(rid, "unlocked::run|unlocked-phase-argument|%s" % k, from_prim and not from_rest, where=ctx.where(U, i),
               detail="the redo-ifchange run with REDO_UNLOCKED is given %s" % (
                   "the primary target" if from_prim and not from_rest else
                   "the dependency list again instead of the primary target: the primary target is never re-evaluated, and the dependencies are built with a forced, unheld lock"))
