"""Rules anchored in the recursive dirtiness routine (deps::private_is_dirty), shared by
C01, C02, C03, C07, C11, C12, C14."""
import re

import anchors
from core import (BA, FA, call_matches, callee_paths, op_local, op_place, op_const, const_int, place_fields, rvalue_places,
                  field_writes, field_reads, taint)
from rules import common
from rules.C06 import backward_direct


class Dirt:
    """Structural map of the dirtiness routine."""

    def __init__(self, prog):
        self.prog = prog
        self.D = anchors.dirtiness(prog)
        D = self.D
        self.ba = ba = BA.of(D)
        # every path / dominance question below is asked over *feasible* paths (core.FA): the verdict may be
        # routed through locals / Option / Result wrappers (a join followed by a re-split on the joined value)
        self.fa = fa = FA.of(D)
        self.cb = {}
        for i in ba.all_calls():
            t = D.blocks[i]["term"]
            dec = t.get("callee", "")
            if not re.search(r"ops::function::Fn(Mut|Once)?::call", dec):
                continue
            chain = ba.ref_chain(op_local(t["args"][0]))
            fld = None
            for l in chain:
                d = ba.single_def(l)
                if d and d[0] == "stmt" and d[3]["k"] == "ref":
                    fs = place_fields(d[3]["place"])
                    if fs and fs[-1].startswith("deps::DirtyCallbacks."):
                        fld = fs[-1].split(".")[-1]
            if fld:
                self.cb.setdefault(fld, []).append(i)
        self.clean = common.verdict_origins(D, "Clean")
        self.dirty = common.verdict_origins(D, "Dirty")
        self.need = common.verdict_origins(D, "NeedTargets")
        self.memo_clean = []
        self.insp_clean = []
        chk = self.cb.get("is_checked", [])
        for c in self.clean:
            if chk and any(fa.dominates(x, c) and not any(fa.dominates(y, c) for y in ba.calls(r"state::File::deps")) for x in chk):
                self.memo_clean.append(c)
            else:
                self.insp_clean.append(c)
        self.deps_calls = ba.calls(r"state::File::deps")
        self.read_stamp = ba.calls(r"state::File::read_stamp")
        self.rec = ba.calls(re.escape(D.key))
        # switch on the dependency mode (discriminant of a state::DepMode place)
        self.mode_sw = []
        for sw in sorted(ba.live):
            es = ba.enum_switch(sw)
            if es and D.locals[es[0]["l"]] == "state::DepMode":
                self.mode_sw.append((sw, es[1], es[2]))
        dm = {v["name"]: v["discr"] for v in prog.adts["state::DepMode"]["variants"]}
        self.created_val = dm.get("Created")
        self.modified_val = dm.get("Modified")

    def verdict_switches(self):
        """switches on the discriminant of a deps::Dirtiness place located after File::deps."""
        out = []
        dv = {v["name"]: v["discr"] for v in self.prog.adts["deps::Dirtiness"]["variants"]}
        for sw in sorted(self.ba.live):
            es = self.ba.enum_switch(sw)
            if es and self.D.locals[es[0]["l"]] == "deps::Dirtiness" and any(self.fa.dominates(d, sw) for d in self.deps_calls):
                out.append((sw, es[1], es[2], dv))
        return out

    def checksum_empty_switches(self):
        """[(sw, empty_target, nonempty_target)] tests of `f.checksum().is_empty()`."""
        out = []
        for (sw, t_t, f_t, cbb) in self.ba.switches_on_call(r"core::str::<impl str>::is_empty"):
            t = self.D.blocks[cbb]["term"]
            sl, org, _ = backward_direct(self.D, op_local(t["args"][0]))
            if any(o[0] == "call" and call_matches(o[2], r"state::File::checksum") for o in org):
                out.append((sw, t_t, f_t))
        return out


def inspected_clean_reasons(ctx, rid):
    """R1.1: every path to the inspected Clean verdict consults every dirtiness reason."""
    d = Dirt(ctx.prog)
    D, ba, fa = d.D, d.ba, d.fa
    ctx.floor(rid, "Clean verdicts (memoised + inspected) in the dirtiness routine", len(d.clean), 2)
    if not ctx.ob(rid, "%s|one-inspected-Clean" % D.key, len(d.insp_clean) == 1 and len(d.memo_clean) == 1, where=D.span,
                  detail="%d inspected and %d memoised Clean verdicts" % (len(d.insp_clean), len(d.memo_clean))):
        return d
    target = d.insp_clean
    # failed_runid
    failed = [sw for sw in sorted(ba.live) if _tests_option_field(D, ba, sw, "state::File.failed_runid")]
    common.mpt_f(ctx, rid, "%s|reason:failed-last-time" % D.key, D, [0], target, failed, "failed_runid is tested on every path to Clean",
               "Clean is reachable without testing failed_runid (a failed target would be reported up to date)")
    changed_none = [sw for sw in sorted(ba.live) if _discr_of_field(D, ba, sw, "state::File.changed_runid")]
    common.mpt_f(ctx, rid, "%s|reason:never-built" % D.key, D, [0], target, changed_none, "changed_runid None/Some is tested on every path to Clean",
               "Clean is reachable without testing whether the target was ever built")
    gt = []
    for sw in sorted(ba.live):
        bs = ba.bool_switch(sw)
        if bs and bs[2][0] == "binop" and bs[2][1][1]["op"] == "Gt" and common.reads_field(D, {"k": "use", "op": bs[2][1][1]["a"]}, "state::File.changed_runid"):
            gt.append(sw)
    common.mpt_f(ctx, rid, "%s|reason:built-later-than-parent" % D.key, D, [0], target, gt, "changed_runid > max_changed is tested on every path to Clean",
               "Clean is reachable without comparing changed_runid with the parent's run id")
    # stamp comparison: read_stamp and a `!=` / `==` on Stamp
    ne = [sw for (sw, eq_t, ne_t, cbb) in stamp_comparisons(D) if any(fa.dominates(r, sw) for r in d.read_stamp)]
    common.mpt_f(ctx, rid, "%s|reason:stamp-mismatch" % D.key, D, [0], target, ne, "a fresh read_stamp is compared with the stored stamp on every path to Clean",
               "Clean is reachable without comparing the file's current stamp with the recorded one")
    # ... and the comparison decides: on its `differs` side neither the dependency walk nor the inspected Clean
    # verdict is reachable (per-site form of what the instance counts of R3.3 used to notice only by accident)
    cmp_ = [(sw, eq_t, ne_t) for (sw, eq_t, ne_t, cbb) in stamp_comparisons(D)
            if any(fa.dominates(r, sw) for r in d.read_stamp) and not _mentions_named(D, D.blocks[cbb]["term"], "state::Stamp::MISSING")]
    common.not_reach_f(ctx, rid, "%s|reason:stamp-mismatch=>not-Clean" % D.key, D, [ne_t for (_, _, ne_t) in cmp_] or [0], target + d.deps_calls,
                       "a stamp that differs from the recorded one never leads to the dependency walk / Clean", "a changed stamp can still end in Clean")
    # the stored stamp's None/Some test, however spelled: `match f.stamp.as_ref()`, `if let Some(..) = f.stamp`,
    # `f.stamp.is_none()` / `is_some()`
    nostamp = [sw for sw in sorted(ba.live) if _discr_of_call_field(D, ba, sw, "state::File.stamp") or _tests_option_field(D, ba, sw, "state::File.stamp")]
    common.mpt_f(ctx, rid, "%s|reason:no-stamp" % D.key, D, [0], target, nostamp, "a missing stored stamp is tested on every path to Clean",
               "Clean is reachable without testing that a stamp was ever recorded")
    common.mpt_f(ctx, rid, "%s|reason:dependencies-walked" % D.key, D, [0], target, d.deps_calls, "File::deps is iterated on every path to Clean",
               "Clean is reachable without looking at the recorded dependencies")
    # per iteration: the mode switch, with a recursive call on the Modified arm and exists() on the Created arm
    if ctx.ob(rid, "%s|deps-loop-mode-switch" % D.key, len(d.mode_sw) == 1, where=D.span, detail="%d switches on DepMode" % len(d.mode_sw)):
        sw, arms, other = d.mode_sw[0]
        m_t = arms.get(d.modified_val)
        c_t = arms.get(d.created_val)
        nexts = [i for i in ba.calls(r".*::iterator::Iterator>?::next") if any(fa.dominates(x, i) for x in d.deps_calls)]
        joins = _verdict_consumers(d)
        common.mpt_f(ctx, rid, "%s|Modified=>recursive-verdict" % D.key, D, [m_t] if m_t is not None else [], joins, d.rec,
                   "a Modified edge is judged by a recursive call before its verdict is consumed", "a Modified dependency is not re-evaluated recursively")
        ex = ba.calls(r"std::path::Path::exists")
        common.mpt_f(ctx, rid, "%s|Created=>exists-test" % D.key, D, [c_t] if c_t is not None else [], joins, ex,
                   "a Created edge is judged by an existence test", "a Created (ifcreate) dependency is not tested for existence")
    return d


_STAMP_TY = re.compile(r"&*(mut)?(state::Stamp|core::option::Option<&*(mut)?state::Stamp>)")


def stamp_comparisons(D):
    """[(switch, equal-edge target, differ-edge target, call block)] branches on a `==` / `!=` between
    state::Stamp values, however the comparison is spelled (`a == b`, `a != b`, `&a == &b`, the derived `eq`
    or the provided `ne`, negated or not)."""
    ba = BA.of(D)
    out = []
    for (sw, t_t, f_t, cbb) in ba.switches_on_call(r".*core::cmp::PartialEq(<.*>)?( for .*)?>?::(eq|ne)|core::cmp::PartialEq::(eq|ne)"):
        t = D.blocks[cbb]["term"]
        # the compared values are stamps: `Stamp`, `&Stamp`, or the same behind an Option (`f.stamp.as_ref() != Some(&new)`)
        if not all(_STAMP_TY.fullmatch(ty.replace(" ", "")) for ty in t.get("arg_tys", [])) or len(t.get("arg_tys", [])) != 2:
            continue
        if any(p_.endswith("::ne") for p_ in callee_paths(t)):
            out.append((sw, f_t, t_t, cbb))
        else:
            out.append((sw, t_t, f_t, cbb))
    return out


def _verdict_consumers(d):
    """Blocks where the per-dependency verdict is consumed: the `f.checksum().is_empty()` test in the loop."""
    return [sw for (sw, _, _) in d.checksum_empty_switches() if any(d.fa.dominates(x, sw) for x in d.deps_calls)]


def _tests_option_field(D, ba, sw, field):
    t = D.blocks[sw]["term"]
    if t["t"] != "switch":
        return False
    neg, kind, info = ba.trace_cond(t["discr"])
    if kind == "call" and call_matches(info[1], r"core::option::Option::is_(some|none)"):
        for l in ba.ref_chain(op_local(info[1]["args"][0])):
            dd = ba.single_def(l)
            if dd and dd[0] == "stmt" and dd[3]["k"] == "ref" and place_fields(dd[3]["place"])[-1:] == [field]:
                return True
    if kind == "discr" and place_fields(info)[-1:] == [field]:
        return True
    return False


def _discr_of_field(D, ba, sw, field):
    t = D.blocks[sw]["term"]
    if t["t"] != "switch":
        return False
    neg, kind, info = ba.trace_cond(t["discr"])
    return kind == "discr" and place_fields(info)[-1:] == [field]


def _discr_of_call_field(D, ba, sw, field):
    """switch on discr(X) where X = Option::as_ref(&place.field)."""
    t = D.blocks[sw]["term"]
    if t["t"] != "switch":
        return False
    neg, kind, info = ba.trace_cond(t["discr"])
    if kind != "discr":
        return False
    if place_fields(info)[-1:] == [field]:
        return True
    dd = ba.single_def(info["l"])
    if dd and dd[0] == "call" and call_matches(dd[2], r"core::option::Option::as_ref"):
        for l in ba.ref_chain(op_local(dd[2]["args"][0])):
            d2 = ba.single_def(l)
            if d2 and d2[0] == "stmt" and d2[3]["k"] == "ref" and place_fields(d2[3]["place"])[-1:] == [field]:
                return True
    return False


def nonclean_propagates(ctx, rid):
    """R1.2: a non-Clean verdict of a dependency never ends in the parent's Clean verdict."""
    d = Dirt(ctx.prog)
    D, ba, fa = d.D, d.ba, d.fa
    vs = d.verdict_switches()
    # how many times the source spells `match dirty` is not the property (one match with a guard, or one per
    # checksum side, are the same mechanism): there must be at least one dispatch on the verdict, and - the
    # per-site form of the old count - no way from the recursive judgement of a dependency to the next
    # iteration / the Clean verdict that skips every dispatch (plain and checksummed parents alike)
    ctx.floor(rid, "switches on the per-dependency verdict", len(vs), 1)
    ext = ba.calls(r"alloc::vec::Vec::extend|<alloc::vec::Vec<.*> as core::iter::traits::collect::Extend<.*>>::extend")
    nexts = [i for i in ba.calls(r".*::iterator::Iterator>?::next") if any(fa.dominates(x, i) for x in d.deps_calls)]
    common.mpt_f(ctx, rid, "%s|every-dependency-verdict-dispatched" % D.key, D, d.rec, nexts + d.insp_clean, [x[0] for x in vs],
                 "after the recursive judgement of a dependency every path to the next iteration / Clean dispatches on its verdict",
                 "a dependency's verdict can be ignored (some path from the recursive call to the next iteration or to Clean has no dispatch on it)", incl=False)
    for k, (sw, arms, other, dv) in common.ordinal_keys([("verdict-switch", v) for v in vs]):
        dt = arms.get(dv["Dirty"])
        nt = arms.get(dv["NeedTargets"])
        common.not_reach_f(ctx, rid, "%s|%s|Dirty-arm-returns" % (D.key, k), D, [dt] if dt is not None else [0], nexts + d.insp_clean,
                         "a Dirty dependency makes the parent return at once (Dirty / NeedTargets)", "after a Dirty dependency the loop continues and may end in Clean")
        common.mpt_f(ctx, rid, "%s|%s|NeedTargets-arm-accumulates" % (D.key, k), D, [nt] if nt is not None else [], nexts + d.insp_clean, ext,
                   "an uncertain dependency is added to must_build", "an uncertain (NeedTargets) dependency is dropped")
    # the sub-verdict of a Modified dependency reaches the switch (`if !sub.is_clean() { dirty = sub }`, or the
    # value of an if/match expression, or a helper's result): the place every verdict switch dispatches on has the
    # recursive call's Ok payload among its value origins, and on the not-clean side of `is_clean()` that
    # payload is what arrives (no path from there to the switch on which the verdict is known to be Clean)
    rec = set(d.rec)
    flows = bool(vs)
    for (sw, arms, other, dv) in vs:
        pl = ba.enum_switch(sw)[0]
        org = common.value_origins(D, pl["l"]) if not pl["p"] else []
        flows = flows and any(o[0] == "callpay" and o[1] in rec for o in org)
    isclean = ba.switches_on_call(r"deps::Dirtiness::is_clean")
    kept = bool(isclean)
    for (sw, t_t, f_t, cbb) in isclean:
        for (vsw, arms, other, dv) in vs:
            # starting on the not-clean edge the verdict arriving at the dispatch must not be a freshly built Clean
            kept = kept and _not_clean_side_keeps(d, f_t, vsw, nexts)
    ok = flows and kept
    ctx.ob(rid, "%s|sub-verdict-kept" % D.key, ok, where=D.span, detail="a non-clean recursive verdict is stored in the per-dependency verdict" if ok else "the recursive verdict is discarded")
    # final Clean is dominated by must_build.is_empty()
    emp = ba.switches_on_call(r"alloc::vec::Vec::is_empty")
    ok = False
    for (sw, t_t, f_t, cbb) in emp:
        if d.insp_clean and fa.edge_dominates((sw, t_t), d.insp_clean[0]):
            ok = True
    ctx.ob(rid, "%s|Clean-only-if-nothing-uncertain" % D.key, ok, where=D.span,
           detail="the inspected Clean verdict is dominated by must_build.is_empty()" if ok else "Clean can be returned although uncertain dependencies were collected")


def _not_clean_side_keeps(d, f_t, vsw, nexts):
    """From the not-clean edge of `sub.is_clean()` no feasible path (within the iteration) reaches the verdict
    switch `vsw` with the switched local known to hold a `Clean` aggregate: walk (block, env) states of core.FA
    from f_t and look at the value of the switched place on arrival."""
    D, ba, fa = d.D, d.ba, d.fa
    pl = ba.enum_switch(vsw)[0]
    if pl["p"]:
        return False
    seen = set()
    todo = [(f_t, ())]
    while todo:
        st = todo.pop()
        if st in seen:
            continue
        seen.add(st)
        if len(seen) > fa.STATE_CAP:
            return False
        if st[0] in nexts:
            continue
        if st[0] == vsw:
            # value of the switched local after the block's own statements
            v = fa.env_before_term(vsw, st[1]).get(pl["l"])
            if v is not None and v[0] == "v" and v[2] == "Clean":
                return False
            continue
        for n in fa.step(st[0], st[1]):
            todo.append(n)
    return True


def memoisation(ctx, rid):
    """R2.4"""
    prog = ctx.prog
    d = Dirt(prog)
    D, ba, fa = d.D, d.ba, d.fa
    sc = d.cb.get("set_checked", [])
    ic = d.cb.get("is_checked", [])
    common.mpt_f(ctx, rid, "%s|Clean=>set_checked" % D.key, D, [0], d.insp_clean, sc, "the inspected Clean verdict is memoised through the set_checked callback",
               "a clean verdict is not memoised: every later request in this run re-walks (and with redo-stamp re-judges) the target")
    if ctx.ob(rid, "%s|is_checked-callback" % D.key, len(ic) == 1, where=D.span, detail="%d is_checked callback calls" % len(ic)):
        failed = [sw for sw in sorted(ba.live) if _tests_option_field(D, ba, sw, "state::File.failed_runid")]
        gt = [sw for sw in sorted(ba.live) if _discr_of_field(D, ba, sw, "state::File.changed_runid")]
        gtc = []
        for sw in sorted(ba.live):
            bs = ba.bool_switch(sw)
            if bs and bs[2][0] == "binop" and bs[2][1][1]["op"] == "Gt" and common.reads_field(D, {"k": "use", "op": bs[2][1][1]["a"]}, "state::File.changed_runid"):
                gtc.append(sw)
        after = all(fa.dominates(x, ic[0]) for x in failed + gt) and bool(failed) and bool(gt) and bool(gtc) and \
            fa.path([0], ic, avoid=frozenset(gtc) | frozenset(d.dirty), incl=True) is None
        before = all(fa.dominates(ic[0], r) for r in d.read_stamp) and bool(d.read_stamp)
        ctx.ob(rid, "%s|is_checked-after-failed/changed-before-stamp" % D.key, after and before, where=ctx.where(D, ic[0]),
               detail="memo lookup sits after the failed/changed tests and before the stamp test" if after and before else "memo lookup is misplaced")
        sws = []
        for sw in sorted(ba.live):
            bs = ba.bool_switch(sw)
            if bs and bs[2][0] == "call" and bs[2][1][0] == ic[0]:
                sws.append((sw, bs[0], bs[1]))
        ok = len(sws) == 1 and d.memo_clean and fa.edge_dominates((sws[0][0], sws[0][1]), d.memo_clean[0]) and not fa.edge_dominates((sws[0][0], sws[0][1]), d.insp_clean[0])
        ctx.ob(rid, "%s|memoised-Clean-only-when-checked" % D.key, bool(ok), where=D.span, detail="memoised Clean is returned exactly on the is_checked == true edge")
    dflt = prog.one(r"<deps::DirtyCallbacks<'a> as core::default::Default>::default|<deps::DirtyCallbacks as core::default::Default>::default")
    fns = set()
    for blk in dflt.blocks:
        for s in blk["stmts"]:
            if s["s"] == "assign":
                for c in __import__("core").rvalue_consts(s["rv"]):
                    if "fn" in c:
                        fns.add(__import__("facts").strip_generics(c["fn"]))
        if blk["term"]["t"] == "call":
            for a in blk["term"]["args"]:
                c = op_const(a)
                if c and "fn" in c:
                    fns.add(__import__("facts").strip_generics(c["fn"]))
    need = {"state::File::is_checked", "state::File::set_checked_save", "state::warn_override"}
    ctx.ob(rid, "DirtyCallbacks::default|persisting-callbacks", need <= fns, where=dflt.span, detail="default callbacks: %s" % sorted(fns))
    scb = prog.one(r"state::File::set_checked")
    w = field_writes(scb, r"state::File\.checked_runid")
    ok = any(common.reads_field(scb, s["rv"], "env::Env.runid") for _, _, s in w)
    ctx.ob(rid, "File::set_checked|checked_runid:=env.runid", ok, where=scb.span, detail="set_checked records the current run id" if ok else "set_checked does not record the run id")
    scs = prog.one(r"state::File::set_checked_save")
    sba = BA.of(scs)
    # marks (through File::set_checked, whose own write is checked above, or by writing checked_runid := env.runid
    # itself) and then saves: the mark lies on every path to the save
    marks = set(sba.calls(r"state::File::set_checked"))
    marks |= {bb for bb, _, s in field_writes(scs, r"state::File\.checked_runid") if common.reads_field(scs, s["rv"], "env::Env.runid")}
    saves = sba.calls(r"state::File::save")
    ok = bool(marks) and bool(saves) and sba.path([0], saves, avoid=frozenset(marks), incl=True) is None
    ctx.ob(rid, "File::set_checked_save|marks-and-saves", ok, where=scs.span, detail="set_checked then save")


def memo_placement(ctx, rid):
    """The is_checked memo is consulted after the failed / changed tests and before the stamp test."""
    d = Dirt(ctx.prog)
    D, ba, fa = d.D, d.ba, d.fa
    ic = d.cb.get("is_checked", [])
    if not ctx.ob(rid, "%s|is_checked-callback" % D.key, len(ic) == 1, where=D.span, detail="%d is_checked callback calls" % len(ic)):
        return
    failed = [sw for sw in sorted(ba.live) if _tests_option_field(D, ba, sw, "state::File.failed_runid")]
    disc = [sw for sw in sorted(ba.live) if _discr_of_field(D, ba, sw, "state::File.changed_runid")]
    gt = []
    for sw in sorted(ba.live):
        bs = ba.bool_switch(sw)
        if bs and bs[2][0] == "binop" and bs[2][1][1]["op"] == "Gt" and common.reads_field(D, {"k": "use", "op": bs[2][1][1]["a"]}, "state::File.changed_runid"):
            gt.append(sw)
    after = bool(failed) and bool(disc) and bool(gt) and all(fa.dominates(x, ic[0]) for x in failed + disc) and \
        fa.path([0], ic, avoid=frozenset(gt) | frozenset(d.dirty), incl=True) is None
    before = all(fa.dominates(ic[0], r) for r in d.read_stamp) and bool(d.read_stamp)
    ctx.ob(rid, "%s|memo-after-changed-test-before-stamp" % D.key, after and before, where=ctx.where(D, ic[0]),
           detail="the memo lookup is reached only through the `changed_runid > max_changed` test (or a Dirty return) and precedes the stamp test" if after and before else
           "the memo lookup can be reached without comparing changed_runid with the parent's: a dependency rebuilt later than an (older) parent is reported clean to it")


def checksum_verdicts(ctx, rid):
    """R3.3: for a checksummed file, a changed stamp or dirty dependency yields NeedTargets([f]),
    never Dirty; Dirty after the stamp read only for files without a checksum."""
    d = Dirt(ctx.prog)
    D, ba, fa = d.D, d.ba, d.fa
    cs = d.checksum_empty_switches()
    ctx.floor(rid, "tests of checksum().is_empty()", len(cs), 2)
    after = [x for x in d.dirty if any(fa.dominates(r, x) for r in d.read_stamp)]
    ctx.floor(rid, "Dirty verdicts after the stamp read", len(after), 2)
    for k, x in common.ordinal_keys([("Dirty-after-stamp", x) for x in after]):
        ok = any(fa.edge_dominates((sw, e_t), x) and e_t != n_t for (sw, e_t, n_t) in cs)
        ctx.ob(rid, "%s|%s|only-without-checksum" % (D.key, k), ok, where=ctx.where(D, x),
               detail="Dirty is returned only on the checksum().is_empty() side" if ok else "a checksummed target is declared Dirty outright: its dependents are rebuilt even if the checksum turns out unchanged")
    for k, (sw, e_t, n_t) in common.ordinal_keys([("checksum-test", c) for c in cs]):
        # the non-empty side must not reach a Dirty verdict before the next loop iteration; it yields NeedTargets carrying f
        nexts = [i for i in ba.calls(r".*::iterator::Iterator>?::next") if any(fa.dominates(x, i) for x in d.deps_calls)]
        # a second test of the same file's checksum reached from this side with nothing in between that could
        # change the file (the same pure getter evaluated again, e.g. inside a helper that decides
        # "Dirty or NeedTargets(self)" on its own) has the same outcome: its `empty` edge is not a path from here
        cut = frozenset((sw2, e2) for (sw2, e2, n2) in cs if sw2 != sw and _same_test_again(d, sw, n_t, sw2, nexts))
        p = fa.path([n_t], d.dirty, avoid=frozenset(nexts), cut_edges=cut, incl=True)
        own = [x for x in d.need if fa.edge_dominates((sw, n_t), x)]
        # ... carrying the judged file itself: the payload of the NeedTargets built on this side goes back, by
        # value-preserving steps (clone / into_owned / deref, the vec![..] construction), to the File whose checksum
        # this switch tests - whatever owns that File (a `MutOrOwned`, a plain `&mut File`, ..)
        carries_f = any(_carries_judged_file(d, sw, x) for x in own)
        ctx.ob(rid, "%s|%s|checksummed=>NeedTargets(self)" % (D.key, k), p is None and (carries_f or not _reaches_any(fa, n_t, d.need, nexts)), where=ctx.where(D, sw),
               detail="on the checksummed side the verdict is NeedTargets carrying the file itself" if p is None else "checksummed side can return Dirty")


_CONTAINER_CTOR = re.compile(r"alloc::boxed::box_assume_init_into_vec_unsafe|alloc::slice::<impl \[T\]>::into_vec|alloc::vec::Vec::push|"
                             r"alloc::vec::from_elem|core::iter::sources::once::once|.*::iterator::Iterator>?::collect|core::array::<impl .*>::.*")


def _carries_judged_file(d, sw, x):
    """Is the payload of the `NeedTargets` aggregate built in block x a copy of the File whose checksum the switch `sw`
    tests?  Forward direct value flow from the parameter(s) the tested receiver goes back to."""
    D, ba = d.D, d.ba
    recv = {l for l in _checksum_receiver_slice(d, sw) if 1 <= l <= D.arg_count}
    if not recv:
        return False
    tn = taint(D, seeds=recv, mode="direct", through=_CONTAINER_CTOR)
    for s in D.blocks[x]["stmts"]:
        if s["s"] == "assign" and s["rv"]["k"] == "agg" and s["rv"].get("adt") == "deps::Dirtiness" and s["rv"].get("variant") == "NeedTargets":
            for o in s["rv"]["ops"]:
                l = op_local(o)
                if l is not None and (l in tn or any(y in tn for y in ba.ref_chain(l))):
                    return True
    return False


def _checksum_receiver_slice(d, sw):
    """Backward slice (locals) of the receiver of the File::checksum call tested at switch `sw`."""
    D, ba = d.D, d.ba
    bs = ba.bool_switch(sw)
    if not bs or bs[2][0] != "call":
        return set()
    t = D.blocks[bs[2][1][0]]["term"]
    _, org, _ = backward_direct(D, op_local(t["args"][0]))
    out = set()
    for o in org:
        if o[0] == "call" and call_matches(o[2], r"state::File::checksum"):
            sl, _, _ = backward_direct(D, op_local(o[2]["args"][0]))
            out |= {l for l in sl if l is not None}
    return out


def _same_test_again(d, sw, n_t, sw2, nexts):
    """Is the checksum test at sw2 a re-evaluation of the test at sw on its non-empty side: only reachable
    through that side, on the same File object, and with no write in between (no assignment through a
    projection, no call that is handed a `&mut`)?"""
    D, ba, fa = d.D, d.ba, d.fa
    if not fa.edge_dominates((sw, n_t), sw2):
        return False
    a, b = _checksum_receiver_slice(d, sw), _checksum_receiver_slice(d, sw2)
    if not any("state::File" in D.locals[l] for l in a & b):
        return False
    region = fa.reach_incl([n_t], avoid=frozenset(nexts) | frozenset([sw2]))
    for x in region:
        if ba.path([x], [sw2], avoid=frozenset(nexts), incl=True) is None:
            continue
        blk = D.blocks[x]
        if any(s["s"] == "assign" and s["place"]["p"] for s in blk["stmts"]):
            return False
        t = blk["term"]
        if t["t"] == "call" and any(ty.startswith("&mut ") or ty.startswith("core::pin::Pin<&mut") for ty in t.get("arg_tys", [])):
            return False
        if t["t"] not in ("call", "goto", "switch", "drop"):
            return False
    return True


def _reaches_any(fa, start, goals, avoid):
    return fa.path([start], goals, avoid=frozenset(avoid), incl=True) is not None


def forget_missing_target(ctx, rid):
    """R11.5: a generated target that vanished is forgotten (is_generated := false, saved), only when
    the new stamp is MISSING."""
    d = Dirt(ctx.prog)
    D, ba, fa = d.D, d.ba, d.fa
    w = field_writes(D, r"state::File\.is_generated")
    saves = ba.calls(r"state::File::save")
    ok = False
    det = "no write of is_generated in the dirtiness routine"
    if w:
        wb = w[0][0]
        c = op_const(w[0][2]["rv"].get("op")) if w[0][2]["rv"]["k"] == "use" else None
        is_false = c is not None and c.get("bool") is False
        # dominated by `newstamp == MISSING` true edge
        # `newstamp == MISSING` (true edge) or `newstamp != MISSING` (false edge): (sw, edge on which it is MISSING, other)
        miss = [(sw, eq_t, ne_t) for (sw, eq_t, ne_t, cbb) in stamp_comparisons(D)
                if _mentions_named(D, D.blocks[cbb]["term"], "state::Stamp::MISSING")]
        miss += [(sw, t_t, f_t) for (sw, t_t, f_t, cbb) in ba.switches_on_call(r"state::Stamp::is_missing")]
        dom = any(fa.edge_dominates((sw, t_t), wb) for (sw, t_t, f_t) in miss)
        saved = saves and fa.path([wb], ba.returns(), avoid=frozenset(saves), incl=True) is None
        gen = any(fa.edge_dominates((sw, t_t), wb) for (sw, t_t, f_t, cbb) in ba.switches_on_call(r"state::File::is_generated"))
        ok = is_false and dom and saved and gen
        det = "is_generated := false is saved, only for a generated file whose new stamp is MISSING" if ok else \
            "forgetting a vanished target is not (false=%s, under MISSING=%s, under is_generated=%s, saved=%s)" % (is_false, dom, gen, bool(saved))
    ctx.ob(rid, "%s|vanished-target-forgotten" % D.key, ok, where=ctx.where(D, w[0][0]) if w else D.span, detail=det)


def _mentions_named(D, t, named):
    ba = BA.of(D)
    for a in t["args"]:
        c = op_const(a)
        if c and c.get("named") == named:
            return True
        l = op_local(a)
        if l is None:
            continue
        for x in ba.ref_chain(l):
            dd = ba.single_def(x)
            if dd and dd[0] == "stmt":
                for c in __import__("core").rvalue_consts(dd[3]):
                    if c.get("named") == named:
                        return True
    return False


def _arg_in(ba, l, tset):
    return l is not None and (l in tset or any(x in tset for x in ba.ref_chain(l)))


def _cycle_walk_map(d):
    """Representation-independent map of the cycle detection of the recorded-graph walk.

    own ids      : results of `File::id` on the judged file (receiver goes back to a parameter), and their direct aliases
    visited role : every other parameter p; dp[p] = what is read out of it by direct steps (moves, borrows, derefs,
                   field projections, identity conversions such as clone): the set itself, a link of an ancestor chain, ..
    tests        : branches that compare an own id with something read out of p - a predicate call that is handed both
                   (`set.contains(&id)`, `list.contains(..)`, a membership helper) or an `==` / `!=` between the two (a
                   membership loop over a chain / slice that a helper spliced in): [(block, positive-edge targets, p)]
    examinations : the test blocks plus the branches on the shape of something read out of p (`while let Some(a) =
                   link`): where the routine looks at what its caller handed in
    """
    D, ba = d.D, d.ba
    params = set(range(1, D.arg_count + 1))
    idc = []
    file_params = set()
    for i in ba.calls(r"state::File::id"):
        if ba.config_guards(i):
            continue
        sl, _, _ = backward_direct(D, op_local(D.blocks[i]["term"]["args"][0]))
        ps = {l for l in sl if l in params}
        if ps:
            idc.append(i)
            file_params |= ps
    oid = taint(D, seeds={D.blocks[i]["term"]["dest"]["l"] for i in idc}, mode="direct") if idc else set()
    dp = {p: taint(D, seeds={p}, mode="direct") for p in sorted(params - file_params)}
    tests = []
    for sw in sorted(ba.live):
        bs = ba.bool_switch(sw)
        if not bs or D.is_cleanup(sw):
            continue
        t_t, f_t, (kind, info) = bs
        if kind == "call":
            cbb, t = info
            if ba.config_guards(cbb):
                continue
            ls = [op_local(a) for a in t["args"]]
            has_id = [n for n, l in enumerate(ls) if _arg_in(ba, l, oid)]
            if not has_id:
                continue
            for p, tp in dp.items():
                if any(_arg_in(ba, l, tp) and has_id != [n] for n, l in enumerate(ls)):
                    # a membership predicate of the standard library answers `true` for "present"; for any other
                    # predicate the side that always ends in the cycle error is the positive one
                    pos = [t_t] if any(q.endswith("::contains") or q.endswith("::contains_key") for q in callee_paths(t)) else [t_t, f_t]
                    tests.append((cbb, pos, p))
        elif kind == "binop" and info[1]["op"] in ("Eq", "Ne"):
            if ba.config_guards(sw):
                continue
            a, b = op_local(info[1]["a"]), op_local(info[1]["b"])
            for p, tp in dp.items():
                if (_arg_in(ba, a, oid) and _arg_in(ba, b, tp)) or (_arg_in(ba, b, oid) and _arg_in(ba, a, tp)):
                    tests.append((sw, [t_t if info[1]["op"] == "Eq" else f_t], p))
    return oid, dp, tests


def visited_set(ctx, rid):
    """R12.5: cycle detection in the recorded graph walk - stated over value flow, not over a container type: the
    caller hands in the ancestors (a set, a chain of links, a slice, possibly inside a parameter struct); the routine
    first tests its own file id for membership (positive => CyclicDependency), and what it hands to the recursive
    call is built from both its own id and what it was handed."""
    d = Dirt(ctx.prog)
    D, ba, fa = d.D, d.ba, d.fa
    oid, dp, tests = _cycle_walk_map(d)
    ok = False
    set_params = set()
    errs = [i for i in common.blocks_with_agg(D, r"error::RedoErrorKind", "CyclicDependency")]
    getter = re.compile(r".*(deref|deref_mut|File::id|Deref::deref)")
    for (tb, pos, p) in tests:
        # where the routine examines what it was handed in p: the tests on p and the branches on the shape of a value
        # read out of p (end of an ancestor chain)
        exam = {b for (b, _, q) in tests if q == p}
        for sw in sorted(ba.live):
            es = ba.enum_switch(sw)
            if es and es[0]["l"] in dp[p] and not ba.config_guards(sw):
                exam.add(sw)
        # nothing happens before the test except reading the file's identity (getters / derefs) and
        # configuration-only code (debug_assert! conditions: they run under `cfg!(debug_assertions)` only)
        first = all(any(fa.dominates(e, x) for e in exam) or bool(ba.config_guards(x)) for x in ba.all_calls()
                    if x not in exam and not call_matches(D.blocks[x]["term"], getter))
        decided = bool(errs) and any(fa.path([e], ba.returns(), avoid=frozenset(errs), incl=True) is None for e in pos)
        if decided and first:
            ok = True
            set_params.add(p)
    ctx.ob(rid, "%s|visited-test-first=>CyclicDependency" % D.key, ok, where=D.span,
           detail="the visited-set test is the first action and its true side returns CyclicDependency" if ok else "cycle test missing, late, or not returning CyclicDependency")
    # where the own id meets what was handed in: a call that is given an own id and mutates (`&mut`) or consumes a value
    # read out of the visited parameter (`set.insert(id)`, `extended(set, id)`), or an aggregate built from both
    # (`Link { id, outer }`): [(block, product local)]
    dP = set()
    for p in set_params:
        dP |= dp[p]
    meets = []
    for i in sorted(ba.live):
        if D.is_cleanup(i) or ba.config_guards(i):
            continue
        blk = D.blocks[i]
        for s in blk["stmts"]:
            if s["s"] != "assign" or s["place"]["p"]:
                continue
            ls = [pl["l"] for pl in rvalue_places(s["rv"])]
            if any(l in oid for l in ls) and any(l in dP for l in ls):
                meets.append((i, s["place"]["l"]))
        t = blk["term"]
        if t["t"] == "call" and not t["dest"]["p"]:
            ls = [op_local(a) for a in t["args"]]
            if any(_arg_in(ba, l, oid) for l in ls):
                for l, ty in zip(ls, t.get("arg_tys", [])):
                    if l is None or not _arg_in(ba, l, dP) or _arg_in(ba, l, oid):
                        continue
                    meets.append((i, ba.base_local_of_ref(l) if ty.startswith("&mut ") else t["dest"]["l"]))
    meets = [(i, m) for (i, m) in meets if D.locals[m] != "bool"]
    ok = bool(meets) and bool(d.rec) and all(any(fa.dominates(i, r) for (i, _) in meets) for r in d.rec)
    ctx.ob(rid, "%s|own-id-inserted-before-recursion" % D.key, ok, where=D.span, detail="the file's id is inserted into the visited set before any recursive call")
    ok = False
    if meets and d.rec and set_params:
        ext = [(i, taint(D, seeds={m}, mode="direct")) for (i, m) in meets]
        ok = True
        for r in d.rec:
            rt = D.blocks[r]["term"]
            # the argument in the position of the visited parameter (the one the cycle test reads: a set, a link, or a
            # struct carrying it) is, or directly contains a reference to, the extended value - built before the call
            hit = False
            for k in set_params:
                if k - 1 < len(rt["args"]):
                    al = op_local(rt["args"][k - 1])
                    hit = hit or any(fa.dominates(i, r) and _arg_in(ba, al, e) for (i, e) in ext)
            ok = ok and hit
    ctx.ob(rid, "%s|recursion-gets-extended-set" % D.key, ok, where=D.span, detail="the recursive call receives the extended visited set" if ok else "the recursive call is given the un-extended set: a cycle in the recorded graph recurses forever")


def created_edge_rule(ctx, rid):
    """R14.2: a Created edge is Dirty exactly on the true edge of exists(base.join(name))."""
    d = Dirt(ctx.prog)
    D, ba, fa = d.D, d.ba, d.fa
    if not d.mode_sw:
        ctx.ob(rid, "%s|mode-switch" % D.key, False, where=D.span, detail="no switch on DepMode")
        return
    sw, arms, other = d.mode_sw[0]
    c_t = arms.get(d.created_val)
    ex = [(s, t_t, f_t, cbb) for (s, t_t, f_t, cbb) in ba.switches_on_call(r"std::path::Path::exists") if c_t is not None and fa.edge_dominates((sw, c_t), s)]
    if not ctx.ob(rid, "%s|Created-arm-exists-test" % D.key, len(ex) == 1, where=D.span, detail="%d existence tests on the Created arm" % len(ex)):
        return
    s, t_t, f_t, cbb = ex[0]
    joins = _verdict_consumers(d)
    def assigns_dirty(blocks):
        for b in blocks:
            for st in D.blocks[b]["stmts"]:
                if st["s"] == "assign" and not st["place"]["p"] and D.locals[st["place"]["l"]] == "deps::Dirtiness":
                    if st["rv"]["k"] == "use":
                        l = op_local(st["rv"]["op"])
                        for dd in ba.defs.get(l, []):
                            if dd[0] == "stmt" and dd[3]["k"] == "agg" and dd[3].get("variant") == "Dirty":
                                return True
                    if st["rv"]["k"] == "agg" and st["rv"].get("variant") == "Dirty":
                        return True
        return False
    tside = fa.reach_incl([t_t], avoid=frozenset(joins))
    fside = fa.reach_incl([f_t], avoid=frozenset(joins)) - tside
    ok = assigns_dirty(tside) and not assigns_dirty(fside)
    ctx.ob(rid, "%s|Created-dirty-iff-exists" % D.key, ok, where=ctx.where(D, s),
           detail="the Created edge sets Dirty exactly when the path exists" if ok else "the Created (ifcreate) edge is not dirty exactly when the path exists")
    # path tested = base.join(dep name)
    t = D.blocks[cbb]["term"]
    sl, org, _ = backward_direct(D, op_local(t["args"][0]))
    ok = any(o[0] == "call" and call_matches(o[2], r"std::path::Path::join") for o in org)
    ctx.ob(rid, "%s|Created-path=base.join(name)" % D.key, ok, where=ctx.where(D, cbb), detail="existence is tested on env.base().join(dep.name())")
