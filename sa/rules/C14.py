"""C14 - redo-ifcreate and redo-always dependencies."""
import re

import anchors
from core import (BA, FA, call_matches, callee_paths, op_local, op_place, op_const, const_int, const_str, place_fields,
                  field_writes)
from rules import common, dirt
from rules.C06 import backward_direct

EXPLANATION = (
    "Static branch-exclusivity / must-pass-through rules: redo-ifcreate refuses an existing path before recording "
    "anything for it, records mode Created, and commits only after the loop; a Created edge is dirty exactly when the "
    "path exists; redo-always records a Modified edge to the pseudo file and re-stamps that file (stamp MISSING, "
    "changed in this run) inside one committed IMMEDIATE transaction; the pseudo file's changed_runid is raised to at "
    "least the current run id whenever it is loaded, and it is never listed as a source. Does NOT decide "
    "'exactly once per run' under parallel dependents."
)
ASSUMPTIONS = ["unwind edges excluded"]


def mode_of(body, bb, argidx):
    t = body.blocks[bb]["term"]
    c = op_const(t["args"][argidx])
    if c and "variant" in c:
        return c["variant"]
    d = BA.of(body).single_def(op_local(t["args"][argidx]))
    if d and d[0] == "stmt" and d[3]["k"] == "agg":
        return d[3].get("variant")
    return None


def run(ctx):
    prog = ctx.prog
    ctx.rule("R14.1", "redo-ifcreate: an existing path returns the error and records nothing for it; a missing path is recorded with mode Created; commit only after the loop; the empty name exits EXIT_INVALID_TARGET")
    ctx.rule("R14.2", "dirtiness routine: a Created edge is Dirty exactly on the true edge of exists(base.join(name))")
    ctx.rule("R14.3", "redo-always: add_dep(Modified, ALWAYS) then on the ALWAYS record set_stamp(MISSING), set_changed, save, then commit, all in one IMMEDIATE transaction")
    ctx.rule("R14.4", "the ALWAYS pseudo file: changed_runid raised to at least the current run id on load; never a source")

    # (a closure the command builds and runs itself - e.g. the body handed to a shared "open transaction, look up the
    # parent target, run, commit" helper - is part of the command)
    C = common.splice_local_closures(prog, prog.one(r"@bin::ifcreate::run"))
    ba = BA.of(C)
    ex = ba.switches_on_call(r"std::path::Path::exists")
    adds = ba.calls(r"state::File::add_dep")
    commits = ba.calls(r"state::ProcessTransaction::commit")
    nexts = [i for i in ba.calls(r".*::iterator::Iterator>?::next")]
    if ctx.ob("R14.1", "%s|anchors" % C.key, len(ex) == 1 and len(adds) == 1 and len(commits) == 1 and bool(nexts), where=C.span, detail="exists test, add_dep, commit and the argument loop located"):
        sw, t_t, f_t, cbb = ex[0]
        errs = common.blocks_with_agg(C, r"core::result::Result", "Err")
        # (feasible paths, core.FA: when the loop runs in a closure handed to a transaction helper, its `return Err(..)`
        # reaches the helper's `?`, whose Continue arm - the commit - is not a path of an Err value)
        common.not_reach_f(ctx, "R14.1", "%s|existing=>no-edge" % C.key, C, [t_t], adds + commits + nexts, "an existing path records nothing, commits nothing and ends the loop",
                           "declaring redo-ifcreate for an existing file is accepted (or committed)")
        common.mpt_f(ctx, "R14.1", "%s|existing=>error" % C.key, C, [t_t], ba.returns(), errs, "the existing side returns Err", "the existing side does not return an error")
        ctx.ob("R14.1", "%s|missing=>add_dep" % C.key, FA.of(C).edge_dominates((sw, f_t), adds[0]), where=ctx.where(C, adds[0]), detail="add_dep is dominated by the not-exists edge (over feasible paths)")
        ctx.ob("R14.1", "%s|mode-Created" % C.key, mode_of(C, adds[0], 2) == "Created", where=ctx.where(C, adds[0]), detail="mode: %s" % mode_of(C, adds[0], 2))
        # same path tested and recorded
        from core import taint
        item = taint(C, seeds={C.blocks[n]["term"]["dest"]["l"] for n in nexts}, mode="derived")
        a_ex = op_local(C.blocks[cbb]["term"]["args"][0])
        a_ad = op_local(C.blocks[adds[0]]["term"]["args"][3])
        ctx.ob("R14.1", "%s|tested-path-is-recorded-path" % C.key, a_ex in item and a_ad in item, where=ctx.where(C, adds[0]), detail="both the existence test and the recorded edge derive from the loop's argument")
        # ... and they are the *same* path: both are the argument itself (identity conversions only), resolved against the same directory
        ident = taint(C, seeds={C.blocks[n]["term"]["dest"]["l"] for n in nexts}, mode="direct", through=__import__("re").compile(r"std::path::Path::new|core::option::Option::ok_or_else|core::option::Option::ok_or"))
        same = (a_ex in ident or any(x in ident for x in ba.ref_chain(a_ex))) and (a_ad in ident or any(x in ident for x in ba.ref_chain(a_ad)))
        ctx.ob("R14.1", "%s|existence-tested-on-the-recorded-spelling" % C.key, same, where=ctx.where(C, cbb),
               detail="the existence test and the recorded edge use the argument as given (same base directory)" if same else
               "the existence test resolves the argument differently from the recorded edge (joined with another path): an existing file can be declared, or a missing one refused")
        # commit is outside the loop: not reachable back to `next`
        common.not_reach(ctx, "R14.1", "%s|commit-after-loop" % C.key, C, commits, nexts, "commit happens after the loop", "commit inside the loop: a later error leaves earlier edges committed", incl=False)
        exits = [i for i in ba.calls(r"std::process::exit") if const_int(C.blocks[i]["term"]["args"][0]) == 204]
        emp = ba.switches_on_call(r"std::ffi::os_str::OsString::is_empty|std::ffi::os_str::OsStr::is_empty")
        ok = bool(exits) and bool(emp) and ba.edge_dominates((emp[0][0], emp[0][1]), exits[0]) and ba.dominates(emp[0][0], sw)
        ctx.ob("R14.1", "%s|empty-name=>exit-204" % C.key, ok, where=C.span, detail="an empty name exits EXIT_INVALID_TARGET before anything else")

    dirt.created_edge_rule(ctx, "R14.2")
    ctx.rule("R14.5", "the per-run memo of the dirtiness routine is consulted only after the 'changed later than parent' test, so a re-stamped //ALWAYS stays dirty for every dependent in the run")
    dirt.memo_placement(ctx, "R14.5")

    A = common.splice_local_closures(prog, prog.one(r"@bin::always::run"))
    aba = BA.of(A)
    ad = aba.calls(r"state::File::add_dep")
    ss = aba.calls(r"state::File::set_stamp")
    sc = aba.calls(r"state::File::set_changed")
    sv = aba.calls(r"state::File::save")
    cm = aba.calls(r"state::ProcessTransaction::commit")
    tx = aba.calls(r"state::ProcessTransaction::new")
    # where the command's Ok result is built (followed through the locals a spliced-in helper routes it through)
    oks = common.returned_ok_blocks(A)
    if ctx.ob("R14.3", "%s|anchors" % A.key, all(len(x) == 1 for x in (ad, ss, sc, sv, cm, tx)) and bool(oks), where=A.span, detail="add_dep, set_stamp, set_changed, save, commit, transaction located"):
        order = [tx[0], ad[0], ss[0], sc[0], sv[0], cm[0]]
        # (feasible paths: an Err leaving a spliced-in closure / helper does not continue into the caller's success path)
        afa = FA.of(A)
        ok = all(afa.dominates(order[i], order[i + 1]) for i in range(len(order) - 1))
        ctx.ob("R14.3", "%s|sequence" % A.key, ok, where=A.span, detail="transaction -> add_dep -> set_stamp -> set_changed -> save -> commit, each dominating the next")
        for nm, M in (("add_dep", ad), ("set_changed", sc), ("save", sv), ("commit", cm)):
            common.mpt_f(ctx, "R14.3", "%s|Ok=>%s" % (A.key, nm), A, [0], oks, M, "Ok is returned only after %s" % nm, "redo-always can succeed without %s" % nm)
        ctx.ob("R14.3", "%s|mode-Modified" % A.key, mode_of(A, ad[0], 2) == "Modified", where=ctx.where(A, ad[0]), detail="mode: %s" % mode_of(A, ad[0], 2))
        # dependency is the ALWAYS pseudo file and the re-stamped record is from_name(ALWAYS)
        sl, org, _ = backward_direct(A, op_local(A.blocks[ad[0]]["term"]["args"][3]))
        ok1 = any(o[0] == "call" and call_matches(o[2], r"state::always_filename") for o in org)
        rec, org2, _ = backward_direct(A, aba.base_local_of_ref(op_local(A.blocks[sc[0]]["term"]["args"][0])))
        fn = [o for o in org2 if o[0] == "call" and call_matches(o[2], r"state::File::from_name")]
        ok2 = False
        for o in fn:
            s3, org3, _ = backward_direct(A, op_local(o[2]["args"][1]))
            ok2 = ok2 or any(x[0] == "call" and call_matches(x[2], r"state::always_filename") for x in org3)
        same = aba.base_local_of_ref(op_local(A.blocks[sc[0]]["term"]["args"][0])) == aba.base_local_of_ref(op_local(A.blocks[sv[0]]["term"]["args"][0])) == aba.base_local_of_ref(op_local(A.blocks[ss[0]]["term"]["args"][0]))
        ctx.ob("R14.3", "%s|edge-and-restamp-target-ALWAYS" % A.key, ok1 and ok2 and same, where=A.span, detail="edge -> always_filename(); the stamped/changed/saved record is from_name(always_filename())")
        st = A.blocks[ss[0]]["term"]["args"][1]
        c = op_const(st)
        ok = (c or {}).get("named") == "state::Stamp::MISSING"
        if not ok and op_local(st) is not None:
            d = aba.single_def(op_local(st))
            ok = bool(d and d[0] == "stmt" and any(cc.get("named") == "state::Stamp::MISSING" for cc in __import__("core").rvalue_consts(d[3])))
        ctx.ob("R14.3", "%s|stamp-MISSING" % A.key, ok, where=ctx.where(A, ss[0]), detail="the pseudo file's stamp is set to MISSING (always differs)")
        beh = A.blocks[tx[0]]["term"]["args"][1]
        d = aba.single_def(op_local(beh)) if op_local(beh) is not None else None
        v = (op_const(beh) or {}).get("variant") or (d[3].get("variant") if d and d[0] == "stmt" and d[3]["k"] == "agg" else None)
        ctx.ob("R14.3", "%s|IMMEDIATE" % A.key, v == "Immediate", where=ctx.where(A, tx[0]), detail="transaction behaviour: %s" % v)

    F = prog.one(r"state::File::from_cols_with_runid")
    fba = BA.of(F)
    w = field_writes(F, r"state::File\.changed_runid")
    mx = fba.calls(r"core::cmp::max")
    cmp_always = [i for i in fba.all_calls() if any("PartialEq" in p or p.endswith("::eq") for p in callee_paths(F.blocks[i]["term"]))]
    ok = bool(w) and bool(mx)
    # the write is under the `name == ALWAYS` test and derives from the runid parameter (arg 2)
    named_always = any(s == "//ALWAYS" for s in common.str_literals(F))
    closure_max = [b for b in prog.children(F) if BA.of(b).calls(r"core::cmp::max")]
    ok = bool(w) and named_always and (bool(mx) or bool(closure_max))
    ctx.ob("R14.4", "from_cols_with_runid|ALWAYS-changed_runid>=runid", ok, where=F.span,
           detail="for the //ALWAYS row changed_runid := max(runid, stored) (or runid)" if ok else "the pseudo file is not forced to look changed in every run")
    IS = prog.one(r"state::File::is_source")
    iba = BA.of(IS)
    sw = iba.switches_on_call(r"core::str::<impl str>::starts_with")
    ok = False
    if sw:
        s0, t_t, f_t, cbb = sw[0]
        pat = const_str(IS.blocks[cbb]["term"]["args"][1])
        falses = [i for i in common.ok_returns(IS) if any(s["s"] == "assign" and s["place"]["l"] == 0 and (op_const(s["rv"]["ops"][0]) or {}).get("bool") is False for s in IS.blocks[i]["stmts"] if s["s"] == "assign" and s["rv"]["k"] == "agg")]
        ok = pat == "//" and any(iba.edge_dominates((s0, t_t), f) for f in falses)
    ctx.ob("R14.4", "is_source|special-names-are-not-sources", ok, where=IS.span, detail="names starting with // are never sources")
