"""C10 - A kill at any moment is recovered from by simply running redo again (structural part)."""
import re

import anchors
from core import (BA, call_matches, callee_paths, op_local, op_place, op_const, const_int, const_str, place_fields, str_consts,
                  field_writes, field_reads)
from rules import common, sqlc, txn
from rules.C06 import backward_direct

EXPLANATION = (
    "Static rules on what a kill can leave behind: all database mutation goes through the single private writer and is "
    "reachable only with a ProcessTransaction in hand (so a kill never leaves a half-applied group of rows, SQLite "
    "atomicity assumed); the journal mode literals are crash-safe ones; locks are kernel byte-range locks only (no "
    "lock-by-file-existence); a stale temp output is removed before every fork and log temp files are persisted or "
    "auto-removed; the order of durable effects on the success path is extracted and checked against the policy 'a "
    "target replacement is preceded by a committed intent for that target'. Does NOT decide the outcome of a kill at "
    "each individual system call (a fault-injection question)."
)
ASSUMPTIONS = ["SQLite transactions are atomic under process kill (synchronous=off only matters for power loss)",
               "the kernel drops fcntl locks of dead processes", "unwind edges excluded"]


def run(ctx):
    prog = ctx.prog
    ctx.rule("R10.1", "all SQL mutation goes through ProcessState::write <- ProcessTransaction::write (both private); every record-writing API takes a ProcessTransaction")
    ctx.rule("R10.2", "journal_mode pragma literals are crash-safe modes (WAL / PERSIST / DELETE / TRUNCATE), never OFF or MEMORY; connect() is the only Connection::open")
    ctx.rule("R10.3", "locks are fcntl byte-range locks only: F_SETLK/F_SETLKW issued only by Lock::{try_lock, wait_lock, unlock}; nothing tests the existence of a file as a lock")
    ctx.rule("R10.4", "a stale temp output is removed before every fork of a .do; log temp files are persisted by rename")
    ctx.rule("R10.6", "helper commands run by a .do (redo-stamp, redo-always, redo-ifchange, redo-ifcreate) do not commit verdict-relevant fields of the target's own row ahead of the builder's result transaction (or an intent marker covers the unfinished build)")
    ctx.rule("R10.5", "success path order of durable effects: a target replacement (rename) is preceded by a committed intent for that target that the next run's override detection takes into account")

    # the writer funnel: whatever executes record-writing SQL (the primitive: ProcessState::write, or
    # ProcessTransaction::write itself when the primitive is inlined) is private and reachable only through
    # ProcessTransaction::write, which is private too (txn.writer_funnel; no function name but the door is fixed)
    members, problems = txn.writer_funnel(prog, ctx.cg)
    bad_members = {k for k, _ in problems}
    for nm in [k for k, _ in members] + ([txn.WRITE] if txn.WRITE not in [k for k, _ in members] else []):
        pk, cprob = txn.closure_confinement(prog, nm)
        if pk is not None:
            # a closure has no visibility: what stands for "private" is that only the body it is written in can build
            # it and that it does not leave that body (the funnel then continues at that body)
            ctx.ob("R10.1", "visibility|%s" % nm, cprob is None and nm not in bad_members, where=prog.bodies[nm].span,
                   detail="closure confined to %s, which builds it and hands it on only as a call argument" % pk if cprob is None else cprob)
            continue
        f = prog.fns.get(nm)
        ctx.ob("R10.1", "visibility|%s" % nm, f is not None and f["vis"] not in ("pub", "crate"), where=f["line"] if f else "", detail="visibility: %s" % (f["vis"] if f else "missing"))
    ctx.ob("R10.1", "who-calls-ProcessState::write", not problems, detail="record-writing SQL is executed by %s and reached only through ProcessTransaction::write" % [k for k, r in members if r == "primitive" or k == members[0][0]] if not problems else
           "; ".join(t for _, t in problems))
    wcallers = sorted(c for c in ctx.cg.callers_of("state::ProcessTransaction::write") if c != "<indirect>")
    allowed = {"state::File::from_name", "state::File::save", "state::File::zap_deps1", "state::File::zap_deps2", "state::File::add_dep"}
    ctx.ob("R10.1", "who-calls-ProcessTransaction::write", set(wcallers) <= allowed and len(wcallers) >= 5, detail="callers: %s" % wcallers)
    for c in wcallers:
        b = prog.bodies[c]
        takes = any(t.startswith("&mut state::ProcessTransaction") for t in b.locals[1:b.arg_count + 1])
        ctx.ob("R10.1", "takes-transaction|%s" % c, takes, where=b.span, detail="record writer takes &mut ProcessTransaction")

    cn = prog.one(r"state::connect")
    lits = [s for (_, _, s, _) in str_consts(cn) if "journal_mode" in s.lower()]
    modes = [sqlc.norm(s).split("=")[-1].strip() for s in lits]
    ctx.floor("R10.2", "journal_mode pragma literals", len(lits), 1)
    for k, m in common.ordinal_keys([("journal_mode", m) for m in modes]):
        ctx.ob("R10.2", "connect|%s" % k, m in ("wal", "persist", "delete", "truncate"), where=cn.span, detail="pragma journal_mode = %s" % m)
    opens = [b.key for b in anchors.bodies_calling(prog, r"rusqlite::Connection::open.*")]
    ctx.ob("R10.2", "single-open", opens == ["state::connect"], detail="Connection::open callers: %s" % opens)

    fc = sorted(b.key for b in anchors.bodies_calling(prog, r"nix::fcntl::fcntl"))
    lockers = []
    for k in fc:
        b = prog.bodies[k]
        for blk in b.blocks:
            for s in blk["stmts"]:
                if s["s"] == "assign" and s["rv"]["k"] == "agg" and s["rv"].get("adt") == "nix::fcntl::FcntlArg" and s["rv"]["variant"] in ("F_SETLK", "F_SETLKW", "F_OFD_SETLK", "F_OFD_SETLKW"):
                    lockers.append(k)
    ok = sorted(set(lockers)) == ["state::Lock::try_lock", "state::Lock::unlock", "state::Lock::wait_lock"]
    ctx.ob("R10.3", "who-issues-fcntl-locks", ok, detail="F_SETLK/F_SETLKW issued by: %s" % sorted(set(lockers)))
    # no O_EXCL / create_new lock files
    excl = anchors.bodies_calling(prog, r"std::fs::OpenOptions::create_new|std::fs::File::create_new")
    ctx.ob("R10.3", "no-lock-by-existence", not excl, detail="no create_new/O_EXCL file creation anywhere (%d bodies)" % len(prog.bodies) if not excl else "exclusive file creation: %s" % [b.key for b in excl])
    lm = anchors.lock_opener(prog)
    # `.truncate(false)` / `.create_new(false)` spell the default out: only a flag that is (or may be) set counts
    ok = bool(BA.of(lm).calls(r"std::fs::OpenOptions::open")) and not _flag_setters(lm, r"std::fs::OpenOptions::(truncate|create_new)")
    ctx.ob("R10.3", "positive-control|LockManager::open-found", ok, where=lm.span, detail="the lock file is opened read/write/create, never truncated or created exclusively")

    SS = anchors.start_self(prog)
    sba = BA.of(SS)
    forks = sba.calls(anchors.FORK_START)
    unl = sba.calls_deep(r"helpers::unlink(_output)?|nix::unistd::unlink|std::fs::remove_file", prog)
    common.mpt(ctx, "R10.4", "%s|stale-tmp-removed-before-fork" % SS.key, SS, [0], forks, unl, "unlink(tmp) precedes the fork", "a temp output of a killed run survives into the next build")
    per = sba.calls(r"tempfile::file::NamedTempFile::persist|tempfile::NamedTempFile::persist")
    tin = sba.calls(r"tempfile::Builder::tempfile_in")
    ok = bool(per) and bool(tin) and all(sba.dominates(tin[0], p) for p in per)
    ctx.ob("R10.4", "%s|log-replaced-by-rename" % SS.key, ok, where=SS.span, detail="the per-target log is created as a NamedTempFile in the log's directory and persisted (renamed) into place")

    helper_commit_rule(ctx)
    ctx.rule("R10.7", "an interrupted build keeps its old dependency list: edges marked by zap_deps1 stay visible to File::deps until zap_deps2 of a *completed* build deletes them")
    dp = prog.one(r"state::File::deps")
    z1b = prog.one(r"state::File::zap_deps1")
    flag = None
    for (_, _, s_, _) in str_consts(z1b):
        if sqlc.kind(s_) == "update":
            flag = (sqlc.set_columns(s_) or [None])[0]
    dsel = [s_ for (_, _, s_, _) in str_consts(dp) if "deps" in sqlc.norm(s_)]
    filt = [s_ for s_ in dsel if flag and " where " in sqlc.norm(s_) and re.search(r"\b%s\b" % re.escape(flag), sqlc.norm(s_).split(" where ", 1)[-1])]
    ctx.ob("R10.7", "deps|marked-edges-still-listed", bool(dsel) and flag is not None and not filt, where=dp.span,
           detail="File::deps lists marked and unmarked edges alike (flag column %r only used by zap_deps1/2 and add_dep)" % flag if dsel and not filt else
           "File::deps hides edges marked by zap_deps1: after a kill between the start-of-build commit and the re-declaration of a dependency the target has no inputs left and looks clean")

    # ---- R10.5 durable-effect order
    R = anchors.record_new_state(prog)
    RR = anchors.result_recorder(prog)
    rba = BA.of(R)
    rrba = BA.of(RR)
    rename = rba.calls(r"std::fs::rename")
    commit_pre = [c for c in sba.calls(r"state::ProcessTransaction::commit") if all(sba.dominates(c, f) for f in forks)]
    commit_post = rrba.calls(r"state::ProcessTransaction::commit")
    seq = ["commit#start(%s)" % (SS.line(commit_pre[0]) if commit_pre else "?"), "fork", "await job", "rename(tmp->t) (%s)" % (R.line(rename[0]) if rename else "?"),
           "save(stamp)", "commit#result(%s)" % (RR.line(commit_post[0]) if commit_post else "?")]
    ctx.note("R10.5 durable-effect order on the success path: " + " -> ".join(seq))
    # policy: before the fork, the start-of-build transaction saves, on the *target's* record, a field that start_self's
    # override predicate reads (so that a run after a kill does not mistake the new file for a manual edit), or an intent file exists.
    det = sba.switches_on_call(r"state::Stamp::detect_override")
    pred_fields = set()
    if det:
        sw, t_t, f_t, cbb = det[0]
        for blk_i in sorted(sba.live):
            if not sba.dominates(blk_i, sw) and blk_i != sw:
                continue
            for s in SS.blocks[blk_i]["stmts"]:
                if s["s"] == "assign":
                    for p in __import__("core").rvalue_places(s["rv"]):
                        for f in place_fields(p):
                            if f.startswith("state::File."):
                                pred_fields.add(f)
        for m in ("state::File::is_generated",):
            if any(sba.dominates(i, sw) for i in sba.calls(m)):
                pred_fields.add("state::File.is_generated")
    # fields of the target's record written (directly or via File setters) between entry and the pre-fork commit, on the build path
    z1 = sba.calls(r"state::File::zap_deps1")
    written = set()
    saves_target = []
    if z1 and commit_pre:
        for i in sorted(sba.live):
            if not (sba.dominates(z1[0], i) and sba.dominates(i, commit_pre[0])):
                continue
            t = SS.blocks[i]["term"]
            if t["t"] == "call" and call_matches(t, r"state::File::(set_[a-z_]+|update_stamp|save)"):
                recv = sba.base_local_of_ref(op_local(t["args"][0]))
                if "state::File" == SS.locals[recv] and SS.local_name(recv) != "dof":
                    # is it the job's own record (moved from self.sf)?
                    sl, org, _ = backward_direct(SS, recv)
                    own = any(common.reads_field(SS, {"k": "use", "op": {"copy": {"l": l, "p": []}}}, "builder::BuildJob.sf") for l in sl)
                    if own:
                        name = callee_paths(t)[0]
                        if name.endswith("::save"):
                            saves_target.append(i)
                        else:
                            cb = prog.bodies.get(name)
                            if cb:
                                written |= {place_fields(s["place"])[-1] for _, _, s in field_writes(cb, r"state::File\..*")}
            for s in SS.blocks[i]["stmts"]:
                if s["s"] == "assign" and place_fields(s["place"])[-1:] and place_fields(s["place"])[-1].startswith("state::File."):
                    recv = s["place"]["l"]
                    sl, org, _ = backward_direct(SS, recv)
                    if any(common.reads_field(SS, {"k": "use", "op": {"copy": {"l": l, "p": []}}}, "builder::BuildJob.sf") for l in sl) or recv in sl:
                        written.add(place_fields(s["place"])[-1])
    intent_file = bool([i for i in sba.all_calls() if call_matches(SS.blocks[i]["term"], r"std::fs::File::create|std::fs::write") and forks and sba.dominates(i, forks[0])])
    ok = (bool(saves_target) and bool(written & pred_fields)) or intent_file
    ctx.ob("R10.5", "%s|committed-intent-before-target-replacement" % SS.key, ok, where=ctx.where(R, rename[0]) if rename else R.span,
           detail=("the start-of-build transaction saves %s on the target's record, which the override predicate reads" % sorted(written & pred_fields)) if ok else
           ("between rename(tmp -> target) in record_new_state and the commit of its stamp the database still holds the old stamp and no intent: a kill in that window makes "
            "every later run classify the freshly built file as a manual override ('you modified it; skipping') until the user deletes it. "
            "Order: %s; override predicate reads %s; the pre-fork transaction writes %s on the target's record%s" % (
                " -> ".join(seq), sorted(pred_fields), sorted(written), "" if saves_target else " and does not save it")))


def _flag_setters(body, rx):
    """Calls of a boolean builder setter matching rx whose argument is not the literal `false`
    (a literal `true`, or any computed value)."""
    ba = BA.of(body)
    out = []
    for i in ba.calls(rx):
        t = body.blocks[i]["term"]
        a = t["args"][1] if len(t["args"]) > 1 else None
        c = op_const(a) if a is not None else None
        if c is None and a is not None and op_local(a) is not None:
            d = ba.single_def(op_local(a))
            if d and d[0] == "stmt" and d[3]["k"] == "use":
                c = op_const(d[3]["op"])
        if c is not None and c.get("bool") is False:
            continue
        out.append(i)
    return out


VERDICT_FIELDS = r"state::File\.(changed_runid|checked_runid|failed_runid|stamp|is_generated|csum)"


def helper_commit_rule(ctx):
    """R10.6"""
    import re as _re
    from core import taint
    prog = ctx.prog
    # the helper commands, by role: the bodies of the command binary that open the row of the *running* target, i.e.
    # call File::from_name with a name built from Env::target() (today: stamp / always / ifcreate `run` and the
    # closure of ifchange's `run`; a command whose `run` was split or merged is still found, no body name is used)
    helpers_ = []
    for hb in sorted(prog.bodies.values(), key=lambda x: x.key):
        if hb.unit != "bin":
            continue
        hba = BA.of(hb)
        fns_ = hba.calls(r"state::File::from_name")
        if not fns_:
            continue
        tg = taint(hb, src_call=lambda t: call_matches(t, r"env::Env::target"), mode="derived")
        if any(op_local(hb.blocks[i]["term"]["args"][1]) in tg or any(x in tg for x in hba.ref_chain(op_local(hb.blocks[i]["term"]["args"][1]))) for i in fns_):
            helpers_.append(hb)
    # File methods that write a verdict-relevant field (transitively through direct calls)
    writers = {}
    for b in prog.bodies.values():
        if b.key.startswith("state::File::"):
            fs = {place_fields(st["place"])[-1] for _, _, st in field_writes(b, VERDICT_FIELDS)}
            if fs:
                writers[b.key] = fs
    changed = True
    while changed:
        changed = False
        for b in prog.bodies.values():
            if not b.key.startswith("state::File::"):
                continue
            for (_, t, kind) in ctx.cg.site_edges.get(b.key, []):
                if kind == "direct" and t in writers and not writers[t] <= writers.get(b.key, set()):
                    writers.setdefault(b.key, set()).update(writers[t])
                    changed = True
    n = 0
    for b in helpers_:
        ba = BA.of(b)
        # the target's own record: from_name(path built from env.target())
        tgt = taint(b, src_call=lambda t: call_matches(t, r"env::Env::target"), mode="derived")
        recs = [i for i in ba.calls(r"state::File::from_name") if op_local(b.blocks[i]["term"]["args"][1]) in tgt or
                any(x in tgt for x in ba.ref_chain(op_local(b.blocks[i]["term"]["args"][1])))]
        commits = ba.calls(r"state::ProcessTransaction::commit")
        for r in recs:
            n += 1
            rec = taint(b, seeds={b.blocks[r]["term"]["dest"]["l"]}, mode="direct")
            bad = []
            for i in ba.all_calls():
                t = b.blocks[i]["term"]
                name = callee_paths(t)[0] if callee_paths(t) else ""
                if name in writers and t["args"] and (op_local(t["args"][0]) in rec or any(x in rec for x in ba.ref_chain(op_local(t["args"][0])))):
                    if any(ba.path([i], [c]) for c in commits):
                        bad.append((i, name, sorted(writers[name])))
                # the record handed to a closure value that is called here (`update(env, |ptx, f| ..)` with the
                # open-row / commit skeleton in a helper that was spliced in): the writers run on the closure's parameter
                for ck in common.closure_call_targets(b, i):
                    cb = prog.bodies.get(ck)
                    tup = ba.single_def(op_local(t["args"][1])) if len(t["args"]) > 1 and op_local(t["args"][1]) is not None else None
                    if cb is None or tup is None or tup[0] != "stmt" or tup[3]["k"] != "agg" or tup[3].get("agg") != "tuple":
                        continue
                    seeds = {2 + k for k, o in enumerate(tup[3]["ops"]) if op_local(o) is not None and (op_local(o) in rec or any(x in rec for x in ba.ref_chain(op_local(o))))}
                    if not seeds or not any(ba.path([i], [c]) for c in commits):
                        continue
                    cba = BA.of(cb)
                    crec = taint(cb, seeds=seeds, mode="direct")
                    for j in cba.all_calls():
                        ct = cb.blocks[j]["term"]
                        cname = callee_paths(ct)[0] if callee_paths(ct) else ""
                        if cname in writers and ct["args"] and (op_local(ct["args"][0]) in crec or any(x in crec for x in cba.ref_chain(op_local(ct["args"][0])))):
                            bad.append((i, cname, sorted(writers[cname])))
            ctx.ob("R10.6", "%s|commits-verdict-fields-of-target-before-result" % b.key, not bad, where=ctx.where(b, bad[0][0]) if bad else b.span,
                   detail="the helper only adds dependency edges to the running target's row (two-phase protected)" if not bad else
                   ("%s commits %s on the *running* target's own row (%s) in its own transaction: a kill after that commit and before the builder records the result "
                    "leaves a row that says 'changed/checked in this run' next to the old stamp and the old file, and the next run finds the stale target clean (exit 0)" % (
                        b.key, sorted({f.split('.')[-1] for _, _, fs in bad for f in fs}), ", ".join(sorted({common.short(nm) for _, nm, _ in bad})))))
    ctx.floor("R10.6", "helper commands that open the running target's row", n, 3)
