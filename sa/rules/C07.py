"""C07 - Each target built at most once per run; outcome independent of schedule."""
import re

import anchors
from core import BA, call_matches, callee_paths, op_local, op_place, taint, place_fields
from rules import common
from rules.C06 import backward_direct

EXPLANATION = (
    "Static rules on the scheduler: the per-command-line dedupe set is keyed on the canonical identity of the target "
    "(a value derived from the File::from_name record, not the raw argument spelling); every job start is preceded, "
    "under the lock and after the record re-read, by a fresh verdict of the dirtiness callback (BuildJob::start always "
    "calls the callback before dispatching, and both construction sites go through it); the verdict consults the "
    "'already built / already checked in this run' state. Does NOT decide equality of the outcome with the serial build."
)
ASSUMPTIONS = ["`redo` (as opposed to redo-ifchange) passes an always-dirty callback by design", "unwind edges excluded"]


# the scheduler's "seen" set: any of the standard set types (membership semantics are the same; which one is used is
# not the property)
_SET = r"(std::collections::hash::set::HashSet|alloc::collections::btree::set::BTreeSet)"


def dedupe_rule(ctx, rid):
    """R7.1 (= R9.4 = R15.4): the value tested against / inserted into the scheduler's `seen`
    set derives from the record returned by File::from_name, not directly from the argument."""
    prog = ctx.prog
    S = anchors.scheduler(prog)
    ba = BA.of(S)
    contains = ba.calls(_SET + r"::contains")
    all_inserts = ba.calls(_SET + r"::insert")
    # an insert whose bool result is branched on is a test as well
    tested_inserts = [cbb for (sw, t_t, f_t, cbb) in ba.switches_on_call(_SET + r"::insert")]
    tests = contains + tested_inserts
    inserts = all_inserts
    sites = [bb for bb, _, _ in anchors.agg_sites(S, r"builder::BuildJob")]
    first_site = next((x for x in sorted(sites) if any(ba.dominates(c, x) for c in tests)), None)
    if not ctx.ob(rid, "%s|dedupe-present" % S.key, bool(tests) and bool(inserts), where=S.span,
                  detail="a seen-set test and insert exist in the scheduler" if tests and inserts else
                  "no per-command-line dedupe: the same target named twice is started twice"):
        return
    # the test must dominate the first-pass construction site, on its "not seen before" edge
    dom = first_site is not None
    ctx.ob(rid, "%s|dedupe-dominates-first-pass" % S.key, dom, where=ctx.where(S, tests[0]) if tests else S.span,
           detail="the seen-set test dominates the first-pass BuildJob construction" if dom else "a first-pass job can be constructed without the seen-set test")
    skip_ok = False
    for (sw, t_t, f_t, cbb) in ba.switches_on_call(_SET + r"::(insert|contains)"):
        is_insert = call_matches(S.blocks[cbb]["term"], _SET + r"::insert")
        dup_edge = f_t if is_insert else t_t        # insert() == false / contains() == true: seen before
        new_edge = t_t if is_insert else f_t
        if first_site is not None and ba.edge_dominates((sw, new_edge), first_site) and ba.path([dup_edge], [first_site], avoid=frozenset(ba.calls(r".*::iterator::Iterator>?::next")), incl=True) is None:
            skip_ok = True
    # every target that gets past the test is remembered, whatever happens to it next (started, or queued as locked)
    rem_ok = False
    nxts = ba.calls(r".*::iterator::Iterator>?::next")
    for (sw, t_t, f_t, cbb) in ba.switches_on_call(_SET + r"::(insert|contains)"):
        is_insert = call_matches(S.blocks[cbb]["term"], _SET + r"::insert")
        if is_insert:
            rem_ok = True
        else:
            p_ = ba.path([f_t], nxts + (common.ok_returns(S) or ba.returns()), avoid=frozenset(all_inserts), incl=True)
            rem_ok = p_ is None
    ctx.ob(rid, "%s|every-handled-target-remembered" % S.key, rem_ok, where=ctx.where(S, tests[0]),
           detail="a target that passes the seen-set test is inserted on every path (also when it is only queued as locked)" if rem_ok else
           "a target that is queued because another redo holds its lock is not remembered: every further spelling on the command line is queued (and rebuilt) again")
    ctx.ob(rid, "%s|duplicate=>skipped" % S.key, skip_ok, where=ctx.where(S, tests[0]),
           detail="a target seen before is skipped (no job constructed in that iteration)" if skip_ok else "a duplicate is detected but still started")
    contains = tests
    tnt = taint(S, src_call=lambda t: call_matches(t, r"state::File::from_name|state::File::id"), mode="derived")
    for k, i in common.ordinal_keys([("seen-key", i) for i in sorted(set(contains + inserts))]):
        a = S.blocks[i]["term"]["args"][1]
        l = op_local(a)
        ok = l in tnt
        ctx.ob(rid, "%s|%s|canonical" % (S.key, k), ok, where=ctx.where(S, i),
               detail="seen-set key derives from the File::from_name record (canonical identity)" if ok else
               "seen-set is keyed on the raw argument spelling: `redo a ./a` yields two jobs for one record (and two live Locks for one id)")


def run(ctx):
    prog = ctx.prog
    ctx.rule("R7.1", "per-command-line dedupe uses the canonical identity: the seen-set key derives from the File::from_name record, not from the raw argument")
    ctx.rule("R7.2", "every fork is preceded by a fresh verdict of the dirtiness callback: BuildJob::start calls the callback on every path before start_self / start_deps_unlocked, which have no other caller")
    ctx.rule("R7.4", "the lock taken before the verdict stays with the job: the future returned for a forked job (the .do or redo-unlocked) owns the Lock")
    ctx.rule("R7.3", "the verdict consults this run's state: changed_runid > max_changed => Dirty and the memoised is_checked => Clean in the dirtiness routine; is_checked/is_changed compare against env.runid")
    dedupe_rule(ctx, "R7.1")
    from rules.C06 import future_owns_lock
    future_owns_lock(ctx, "R7.4")

    J = anchors.job_start(prog)
    jba = BA.of(J)
    ss = anchors.start_self(prog)
    cb_calls = [i for i in jba.all_calls() if re.search(r"ops::function::Fn(Mut|Once)?::call", J.blocks[i]["term"].get("callee", ""))
                and ("resolved" not in J.blocks[i]["term"] or J.blocks[i]["term"].get("rkind") == "virtual")]
    forks = jba.calls(re.escape(ss.key) + r"|builder::BuildJob::start_deps_unlocked")
    ctx.floor("R7.2", "dispatch calls (start_self / start_deps_unlocked) in BuildJob::start", len(forks), 2)
    p = jba.path([0], forks, avoid=frozenset(cb_calls), incl=True) if cb_calls else [0]
    ctx.ob("R7.2", "%s|callback-before-dispatch" % J.key, p is None, where=J.span,
           detail="the dirtiness callback is called on every path to start_self/start_deps_unlocked" if p is None else "a job can be dispatched without asking the dirtiness callback")
    for k in (ss.key, "builder::BuildJob::start_deps_unlocked"):
        callers = [c for c in ctx.cg.callers_of(k) if c != "<indirect>"]
        ctx.ob("R7.2", "who-calls|%s" % k, callers == [J.key], detail="callers: %s" % callers)
    S = anchors.scheduler(prog)
    sba = BA.of(S)
    starts = sba.calls(re.escape(J.key))
    sites = anchors.agg_sites(S, r"builder::BuildJob")
    ctx.ob("R7.2", "%s|every-BuildJob-is-started-via-start" % S.key, len(starts) == len(sites) and all(any(sba.dominates(bb, s) for s in starts) for bb, _, _ in sites),
           where=S.span, detail="%d constructions, %d BuildJob::start calls" % (len(sites), len(starts)))

    # ---- R7.3
    D = anchors.dirtiness(prog)
    dba = BA.of(D)
    ok = False
    dirty_blocks = common.blocks_with_agg(D, r"deps::Dirtiness", "Dirty")
    for sw in sorted(dba.live):
        bs = dba.bool_switch(sw)
        if not bs:
            continue
        t_t, f_t, (kind, info) = bs
        if kind != "binop" or info[1]["op"] != "Gt":
            continue
        lhs_changed = common.reads_field(D, {"k": "use", "op": info[1]["a"]}, "state::File.changed_runid")
        rsl, _, _ = backward_direct(D, op_local(info[1]["b"])) if op_local(info[1]["b"]) is not None else (set(), 0, 0)
        # the bound is what the caller handed in: a parameter of the routine (the run id itself, or a field of a
        # parameter struct that carries it) - not the judged record, the transaction or the callback table
        rhs_param = any(l is not None and 1 <= l <= D.arg_count and not re.search(r"state::File|state::ProcessTransaction|deps::DirtyCallbacks", D.locals[l]) for l in rsl)
        if lhs_changed and rhs_param:
            p = dba.path([t_t], dba.returns(), avoid=frozenset(dirty_blocks), incl=True)
            ok = p is None
    ctx.ob("R7.3", "%s|built-later-than-parent=>Dirty" % D.key, ok, where=D.span,
           detail="changed_runid > max_changed returns Dirty" if ok else "the 'built more recently than parent' test is missing or does not return Dirty")
    for nm, fld in (("is_checked", "state::File.checked_runid"), ("is_changed", "state::File.changed_runid"), ("is_failed", "state::File.failed_runid")):
        b = prog.one(r"state::File::" + nm)
        # the comparison may sit in the function itself or in a closure it hands to a combinator
        # (`self.x_runid.is_some_and(|r| r != 0 && r >= v.runid.unwrap())`): look at the function and the closures
        # nested in it. What must exist: a `>=` (or the mirrored `<=`) whose smaller side is the current run id
        # (a read of Env.runid), in code that also reads this predicate's own run-id field.
        # (a closure the predicate builds and runs itself - e.g. a lazily evaluated `|| env.runid.unwrap()` handed to a
        # shared helper that was spliced in - is part of the predicate)
        fam = [common.splice_local_closures(prog, b)]
        k = 0
        while k < len(fam):
            fam.extend(c for c in prog.children(fam[k]) if c not in fam)
            k += 1
        ge = False
        for fb in fam:
            for blk in fb.blocks:
                for s in blk["stmts"]:
                    if s["s"] == "assign" and s["rv"]["k"] == "binop" and s["rv"]["op"] in ("Ge", "Le"):
                        small = s["rv"]["b"] if s["rv"]["op"] == "Ge" else s["rv"]["a"]
                        if __import__("core").op_place(small) is not None and common.reads_field(fb, {"k": "use", "op": small}, "env::Env.runid"):
                            ge = True
        reads_runid = any(bool(__import__("core").field_reads(fb, re.compile(re.escape(fld)))) for fb in fam)
        ctx.ob("R7.3", "File::%s|compares-with-env.runid" % nm, ge and reads_runid, where=b.span,
               detail="%s: %s >= env.runid" % (nm, fld) if ge and reads_runid else "%s does not compare against the current run id" % nm)
