"""Load the JSON fact files produced by driver/redo-facts and index them.

A Program holds every MIR body of crate `redo` (lib and bin), keyed by
"<unit>::<def path>", e.g. "lib::builder::run::{closure#0}" / "bin::ifchange::run".
Nothing here looks at source text; spans are carried for reports only.
"""
import glob
import json
import os
import re


class Body:
    __slots__ = ("unit", "name", "key", "d", "blocks", "locals", "vars", "_succ", "_pred",
                 "kind", "parent", "span", "arg_count", "coroutine")

    def __init__(self, unit, d):
        self.unit = unit
        self.d = d
        self.name = d["name"]
        self.key = strip_generics(d["name"])
        self.blocks = d["blocks"]
        self.locals = d["locals"]
        self.kind = d["kind"]
        self.parent = d.get("parent")
        self.span = d["span"]
        self.arg_count = d["arg_count"]
        self.coroutine = d.get("coroutine", False)
        self.vars = {}
        for nm, pl in d["vars"]:
            self.vars.setdefault(nm, []).append(pl)
        self._succ = None
        self._pred = None

    # ---- CFG -------------------------------------------------------------------------------
    def term(self, bb):
        return self.blocks[bb]["term"]

    def succ_all(self, bb):
        """(target, edge-label) pairs including unwind edges."""
        t = self.blocks[bb]["term"]
        k = t["t"]
        out = []
        if k == "goto":
            out.append((t["target"], "goto"))
        elif k == "switch":
            c = t["discr"].get("const")
            if c is None:
                # `_x = const ..; switchInt(move _x)` in the same block (cfg!(..), debug_assert!)
                pl = t["discr"].get("move") or t["discr"].get("copy")
                if pl is not None and not pl["p"]:
                    for st in self.blocks[bb]["stmts"]:
                        if st["s"] == "assign" and st["place"]["l"] == pl["l"] and not st["place"]["p"]:
                            c = st["rv"]["op"].get("const") if st["rv"]["k"] == "use" else None
            cv = None
            if c is not None:
                if "bool" in c:
                    cv = 1 if c["bool"] else 0
                elif "int" in c:
                    cv = c["int"]
            if cv is not None:
                # switch on a literal (e.g. `cfg!(feature = ..)`): only the matching edge is real
                tgt = t["otherwise"]
                for v, tg in t["arms"]:
                    if v == cv:
                        tgt = tg
                out.append((tgt, "const"))
            else:
                for v, tg in t["arms"]:
                    out.append((tg, ("val", v)))
                ev = t.get("enum_variants")
                covered = ev is not None and {x[0] for x in ev} <= {v for v, _ in t["arms"]}
                if not covered:
                    # (a switch on an enum discriminant whose arms list every variant has no real `otherwise`)
                    out.append((t["otherwise"], "otherwise"))
        elif k in ("drop", "assert"):
            out.append((t["target"], "ok"))
            if "unwind" in t:
                out.append((t["unwind"], "unwind"))
        elif k == "call":
            if "target" in t:
                out.append((t["target"], "ret"))
            if "unwind" in t:
                out.append((t["unwind"], "unwind"))
        elif k == "yield":
            out.append((t["resume"], "resume"))
            if "drop" in t:
                out.append((t["drop"], "cdrop"))
        return out

    def succ(self, bb):
        """Normal-flow successors: no unwind edges, no coroutine-drop edges."""
        if self._succ is None:
            self._succ = []
            for i in range(len(self.blocks)):
                self._succ.append([tg for tg, lab in self.succ_all(i) if lab not in ("unwind", "cdrop")])
        return self._succ[bb]

    def pred(self, bb):
        if self._pred is None:
            self._pred = [[] for _ in self.blocks]
            for i in range(len(self.blocks)):
                for s in self.succ(i):
                    self._pred[s].append(i)
        return self._pred[bb]

    def is_cleanup(self, bb):
        return self.blocks[bb].get("cleanup", False)

    def reachable(self):
        seen = {0}
        st = [0]
        while st:
            b = st.pop()
            for s in self.succ(b):
                if s not in seen:
                    seen.add(s)
                    st.append(s)
        return seen

    def calls(self):
        """[(bb, term)] for every Call terminator on a normal-flow reachable, non-cleanup block."""
        r = self.reachable()
        return [(i, b["term"]) for i, b in enumerate(self.blocks)
                if b["term"]["t"] == "call" and i in r and not b.get("cleanup")]

    def line(self, bb):
        return self.blocks[bb]["term"].get("line", "?")

    def var_locals(self, name):
        """Locals (no projection) bound to user variable `name`."""
        return [p["l"] for p in self.vars.get(name, []) if not p["p"]]

    def local_name(self, l):
        for nm, pls in self.vars.items():
            for p in pls:
                if p["l"] == l and not p["p"]:
                    return nm
        return "_%d" % l


def callee_of(t):
    """Best resolved callee path of a call terminator, or None for indirect calls."""
    if t.get("t") != "call":
        return None
    return t.get("resolved") or t.get("callee")


_GENERIC = re.compile(r"::<(?!impl )[^<>]*(?:<[^<>]*(?:<[^<>]*>[^<>]*)*>[^<>]*)*>")
_LIFETIME_ARGS = re.compile(r"<(?:'[A-Za-z_][A-Za-z0-9_]*(?:, ?)?)+>")
_ALIAS = {}
_ALIAS_RX = None
_SG_CACHE = {}


def set_alias(amap):
    """Install the function aliases found by canon.py: {key in this tree: key in the reference tree}.
    Every path that goes through strip_generics (body keys, callee paths, closure definitions) is then
    expressed in the reference vocabulary; closures and nested items follow their parent."""
    global _ALIAS, _ALIAS_RX
    _ALIAS = dict(amap)
    _SG_CACHE.clear()
    _ALIAS_RX = re.compile(r"^(%s)(?=::|$)" % "|".join(sorted(map(re.escape, _ALIAS), key=len, reverse=True))) if _ALIAS else None


def strip_generics(path):
    """`std::vec::Vec::<T>::push` -> `std::vec::Vec::push` (best effort, nested up to 3); lifetime-only
    argument lists (`Meta<'a>` / `Meta<'_>`) are dropped; function aliases (set_alias) are applied."""
    if path is None:
        return None
    r = _SG_CACHE.get(path)
    if r is not None:
        return r
    p0 = path
    prev = None
    while prev != path:
        prev = path
        path = _GENERIC.sub("", path)
    path = _LIFETIME_ARGS.sub("", path)
    if _ALIAS_RX is not None:
        m = _ALIAS_RX.match(path)
        if m:
            path = _ALIAS[m.group(1)] + path[m.end():]
    _SG_CACHE[p0] = path
    return path


_SKIP_KEYS = {"str", "pretty", "line", "macro", "msg", "span", "nonce", "dbg", "vars", "fields", "variant", "enum_variants"}
_REDO = re.compile(r"(?<![A-Za-z0-9_])(?<!::)redo::")


def _canon_bin(x, local_roots):
    """Rewrite every path-bearing string of the bin unit's facts to the canonical form:
    lib items lose the `redo::` crate prefix, bin-local items get the `@bin::` prefix."""
    rx_local = re.compile(r"(?<![A-Za-z0-9_])(?<!::)(%s)(?=::|$)" % "|".join(sorted(map(re.escape, local_roots))))

    def fix(s):
        s2 = _REDO.sub("\x00", s)          # protect lib paths
        s2 = rx_local.sub(lambda m: "@bin::" + m.group(1), s2)
        return s2.replace("\x00", "")

    def walk(v, key=None):
        if isinstance(v, str):
            return v if key in _SKIP_KEYS else fix(v)
        if isinstance(v, list):
            return [walk(i, key) for i in v]
        if isinstance(v, dict):
            return {k: walk(val, k) for k, val in v.items()}
        return v
    return walk(x)


class Program:
    def __init__(self, facts_dir, canon=None):
        self.facts_dir = facts_dir
        self.units = {}
        self.bodies = {}
        self.adts = {}
        self.fns = {}
        self.meta = {}
        self.canon_notes = []
        set_alias({})
        if canon is None:
            canon = os.environ.get("VERIF_NO_CANON", "") != "1"
        raw = {}
        for f in sorted(glob.glob(os.path.join(facts_dir, "facts.redo.*.json"))):
            d = json.load(open(f))
            unit = "bin" if "Executable" in d["crate_type"] else "lib"
            if d.get("test"):
                continue
            if unit == "bin":
                roots = set()
                for fn in d["fns"]:
                    roots.add(fn["name"].split("::")[0].lstrip("<"))
                roots = {r for r in roots if re.fullmatch(r"[A-Za-z_][A-Za-z0-9_]*", r)}
                d = _canon_bin(d, roots)
            raw[unit] = d
        if canon and "lib" in raw and "bin" in raw:
            import canon as _canon
            _, self.canon_notes = _canon.canonicalise(raw)
        for unit, d in raw.items():
            self.units[unit] = d
            self.meta[unit] = {"features": d["features"], "nonce": d["nonce"],
                               "missing_built": d["missing_built"], "bodies": len(d["bodies"])}
            for b in d["bodies"]:
                body = Body(unit, b)
                self.bodies[body.key] = body
            for a in d["adts"]:
                self.adts[a["name"]] = a
            for fn in d["fns"]:
                self.fns[strip_generics(fn["name"])] = fn
        if "lib" not in self.units or "bin" not in self.units:
            raise RuntimeError("fact files for lib and bin not both present in %s" % facts_dir)

    # ---- lookup ------------------------------------------------------------------------------
    def body(self, key):
        return self.bodies[key]

    def find(self, pattern):
        """Bodies whose generic-stripped key matches the regex `pattern` fully."""
        rx = re.compile(pattern)
        return [b for k, b in self.bodies.items() if rx.fullmatch(k)]

    def one(self, pattern):
        r = self.find(pattern)
        if len(r) != 1:
            raise AnchorError("anchor %r matched %d bodies: %s" % (pattern, len(r), [b.key for b in r][:5]))
        return r[0]

    def local_body(self, path):
        """Body for a canonical callee path, or None if the callee is not a local body."""
        return self.bodies.get(strip_generics(path)) if path else None

    def children(self, body):
        """Closure / coroutine bodies lexically nested directly in `body`."""
        return [b for b in self.bodies.values() if b.unit == body.unit and b.parent == body.name]

    def stats(self):
        nb = len(self.bodies)
        nblk = sum(len(b.blocks) for b in self.bodies.values())
        ncall = 0
        nunres = 0
        nyield = 0
        for b in self.bodies.values():
            for blk in b.blocks:
                t = blk["term"]
                if t["t"] == "call":
                    ncall += 1
                    if "resolved" not in t:
                        nunres += 1
                elif t["t"] == "yield":
                    nyield += 1
        return {"bodies": nb, "blocks": nblk, "call_sites": ncall, "unresolved_callees": nunres,
                "yields": nyield, "units": self.meta}


class AnchorError(Exception):
    """A navigational anchor did not resolve uniquely: the check cannot decide (exit 2)."""
