"""Analysis core (E2): CFG relations, value flow, call graph and effect summaries over MIR facts.

Edge policy: all relations here run on *normal* control flow (no unwind edges, no coroutine-drop
edges) unless stated. A call to a diverging function simply has no successor.
"""
import re
from collections import deque

from facts import Body, Program, callee_of, strip_generics, AnchorError


# ------------------------------------------------------------------------------------------------
# operands / places

def op_place(o):
    if o is None:
        return None
    return o.get("copy") or o.get("move")


def op_local(o):
    p = op_place(o)
    return p["l"] if p else None


def op_const(o):
    return o.get("const") if o else None


def const_int(o):
    c = op_const(o)
    if c is not None and "int" in c:
        return c["int"]
    return None


def const_str(o):
    c = op_const(o)
    if c is not None and "str" in c:
        return c["str"]
    return None


def place_fields(p):
    """Field projections (canonical 'Type.field' names) of a place, outermost last."""
    return [e[2:] for e in p["p"] if e.startswith("f:")]


def rvalue_places(rv):
    """All places read by an rvalue."""
    k = rv["k"]
    out = []
    if k in ("use", "repeat", "cast", "unop"):
        o = rv["a"] if k == "unop" else rv["op"]
        p = op_place(o)
        if p:
            out.append(p)
    elif k in ("ref", "rawptr", "discr"):
        out.append(rv["place"])
    elif k == "binop":
        for o in (rv["a"], rv["b"]):
            p = op_place(o)
            if p:
                out.append(p)
    elif k == "agg":
        for o in rv["ops"]:
            p = op_place(o)
            if p:
                out.append(p)
    return out


def rvalue_consts(rv):
    k = rv["k"]
    ops = []
    if k in ("use", "repeat", "cast"):
        ops = [rv["op"]]
    elif k == "unop":
        ops = [rv["a"]]
    elif k == "binop":
        ops = [rv["a"], rv["b"]]
    elif k == "agg":
        ops = rv["ops"]
    return [o["const"] for o in ops if "const" in o]


def callee_paths(t):
    """Canonical (generic-stripped) resolved and declared callee paths of a call terminator."""
    out = []
    for k in ("resolved", "callee"):
        if k in t:
            out.append(strip_generics(t[k]))
    return out


def call_matches(t, rx):
    if t.get("t") != "call":
        return False
    if isinstance(rx, str):
        rx = re.compile(rx)
    return any(rx.fullmatch(p) for p in callee_paths(t))


# ------------------------------------------------------------------------------------------------
# per-body analysis

class BA:
    """Per-body analyses, cached."""

    _cache = {}

    @classmethod
    def of(cls, body):
        a = cls._cache.get(id(body))
        if a is None:
            a = cls(body)
            cls._cache[id(body)] = a
        return a

    def __init__(self, body):
        self.b = body
        self.n = len(body.blocks)
        self._dom = None
        self._reach0 = None
        self._defs = None

    # ---- reachability ---------------------------------------------------------------------
    @property
    def live(self):
        if self._reach0 is None:
            self._reach0 = self.b.reachable()
        return self._reach0

    def reach_from(self, starts, avoid=frozenset(), cut_edges=frozenset()):
        """Blocks reachable from the *successors* of `starts` (normal flow) without entering
        a block in `avoid` and without using an edge in cut_edges. `starts` themselves are only
        in the result if re-entered."""
        seen = set()
        dq = deque()
        for s in starts:
            for t in self.b.succ(s):
                if (s, t) in cut_edges or t in avoid:
                    continue
                if t not in seen:
                    seen.add(t)
                    dq.append(t)
        while dq:
            x = dq.popleft()
            for t in self.b.succ(x):
                if (x, t) in cut_edges or t in avoid:
                    continue
                if t not in seen:
                    seen.add(t)
                    dq.append(t)
        return seen

    def reach_incl(self, starts, avoid=frozenset(), cut_edges=frozenset()):
        """Like reach_from but the start blocks are included (if not avoided)."""
        seen = set()
        dq = deque()
        for s in starts:
            if s not in avoid and s not in seen:
                seen.add(s)
                dq.append(s)
        while dq:
            x = dq.popleft()
            for t in self.b.succ(x):
                if (x, t) in cut_edges or t in avoid:
                    continue
                if t not in seen:
                    seen.add(t)
                    dq.append(t)
        return seen

    def path(self, starts, goal, avoid=frozenset(), cut_edges=frozenset(), incl=False):
        """A shortest witness path (list of blocks) from a start to a block in `goal`."""
        goal = set(goal)
        prev = {}
        dq = deque()
        if incl:
            for s in starts:
                if s in avoid:
                    continue
                if s in goal:
                    return [s]
                if s not in prev:
                    prev[s] = None
                    dq.append(s)
        else:
            for s in starts:
                for t in self.b.succ(s):
                    if (s, t) in cut_edges or t in avoid or t in prev:
                        continue
                    prev[t] = s if False else None
                    prev[t] = ("start", s)
                    dq.append(t)
                    if t in goal:
                        return [s, t]
        while dq:
            x = dq.popleft()
            if x in goal and (incl or True):
                # reconstruct
                out = [x]
                p = prev[x]
                while p is not None:
                    if isinstance(p, tuple):
                        out.append(p[1])
                        break
                    out.append(p)
                    p = prev[p]
                return list(reversed(out))
            for t in self.b.succ(x):
                if (x, t) in cut_edges or t in avoid or t in prev:
                    continue
                prev[t] = x
                dq.append(t)
        return None

    def returns(self):
        return [i for i in self.live if self.b.blocks[i]["term"]["t"] == "return"]

    # ---- dominators -----------------------------------------------------------------------
    @property
    def dom(self):
        """dom[b] = set of blocks dominating b (normal flow, from bb0)."""
        if self._dom is None:
            live = sorted(self.live)
            full = set(live)
            dom = {b: set(full) for b in live}
            dom[0] = {0}
            changed = True
            # reverse post order helps convergence
            order = self._rpo()
            while changed:
                changed = False
                for b in order:
                    if b == 0:
                        continue
                    preds = [p for p in self.b.pred(b) if p in full]
                    if not preds:
                        continue
                    new = set.intersection(*(dom[p] for p in preds)) | {b}
                    if new != dom[b]:
                        dom[b] = new
                        changed = True
            self._dom = dom
        return self._dom

    def _rpo(self):
        seen = set()
        order = []
        st = [(0, iter(self.b.succ(0)))]
        seen.add(0)
        while st:
            n, it = st[-1]
            adv = False
            for s in it:
                if s not in seen:
                    seen.add(s)
                    st.append((s, iter(self.b.succ(s))))
                    adv = True
                    break
            if not adv:
                order.append(n)
                st.pop()
        return list(reversed(order))

    def dominates(self, a, b):
        return b in self.dom and a in self.dom[b]

    def edge_dominates(self, edge, b):
        """Every entry->b path uses `edge` (s,t)."""
        if b not in self.live:
            return True
        r = self.reach_incl([0], cut_edges=frozenset([edge]))
        return b not in r

    # ---- calls ----------------------------------------------------------------------------
    def calls(self, rx):
        if isinstance(rx, str):
            rx = re.compile(rx)
        return [i for i in sorted(self.live)
                if self.b.blocks[i]["term"]["t"] == "call" and not self.b.is_cleanup(i)
                and call_matches(self.b.blocks[i]["term"], rx)]

    def calls_deep(self, rx, prog, depth=2):
        """Blocks that call something matching rx, directly or through a local wrapper on all of
        whose entry->return paths such a call lies (the wrapper 'is' the call; Min et al.)."""
        if isinstance(rx, str):
            rx = re.compile(rx)
        out = set(self.calls(rx))
        if depth <= 0:
            return sorted(out)
        for i in self.all_calls():
            if i in out:
                continue
            t = self.b.blocks[i]["term"]
            for p in callee_paths(t):
                cb = prog.bodies.get(p)
                if cb is None or cb.key == self.b.key:
                    continue
                cba = BA.of(cb)
                inner = cba.calls_deep(rx, prog, depth - 1)
                if inner and cba.path([0], cba.returns(), avoid=frozenset(inner), incl=True) is None:
                    out.add(i)
                break
        return sorted(out)

    def config_guards(self, bb):
        """Switch blocks on a *literal* (`cfg!(..)` as used by debug_assert!) that lie on every path to
        bb although bb is not their join point: bb only executes under that build configuration."""
        out = []
        for i in sorted(self.live):
            t = self.b.blocks[i]["term"]
            if t["t"] != "switch":
                continue
            c = t["discr"].get("const")
            if c is None:
                pl = t["discr"].get("move") or t["discr"].get("copy")
                if pl is not None and not pl["p"]:
                    for st in self.b.blocks[i]["stmts"]:
                        if st["s"] == "assign" and st["place"]["l"] == pl["l"] and not st["place"]["p"] and st["rv"]["k"] == "use":
                            c = st["rv"]["op"].get("const")
            if c is None or ("bool" not in c and "int" not in c):
                continue
            if not self.dominates(i, bb) or i == bb:
                continue
            # bb inside the guarded region: some successor of the raw switch (all arms) does not reach bb
            raw = [tg for _, tg in t["arms"]] + [t["otherwise"]]
            if any(self.path([x], [bb], incl=True) is None for x in raw):
                out.append(i)
        return out

    def all_calls(self):
        return [i for i in sorted(self.live)
                if self.b.blocks[i]["term"]["t"] == "call" and not self.b.is_cleanup(i)]

    # ---- definitions ----------------------------------------------------------------------
    @property
    def defs(self):
        """local -> list of ('stmt', bb, idx, rvalue) | ('call', bb, term) | ('yield', bb, term)
        for whole-local definitions; partial writes are recorded as ('field', bb, idx, stmt)."""
        if self._defs is None:
            d = {}
            for i, blk in enumerate(self.b.blocks):
                for j, s in enumerate(blk["stmts"]):
                    if s["s"] != "assign":
                        continue
                    l = s["place"]["l"]
                    if s["place"]["p"]:
                        d.setdefault(l, []).append(("field", i, j, s))
                    else:
                        d.setdefault(l, []).append(("stmt", i, j, s["rv"]))
                t = blk["term"]
                if t["t"] == "call":
                    l = t["dest"]["l"]
                    if t["dest"]["p"]:
                        d.setdefault(l, []).append(("callfield", i, t))
                    else:
                        d.setdefault(l, []).append(("call", i, t))
                elif t["t"] == "yield":
                    d.setdefault(t["resume_arg"]["l"], []).append(("yield", i, t))
            self._defs = d
        return self._defs

    def single_def(self, l):
        ds = [x for x in self.defs.get(l, []) if x[0] in ("stmt", "call", "yield")]
        return ds[0] if len(ds) == 1 else None

    def resolve_ref(self, l, depth=8):
        """If local `l` is (a move/copy of) `&P` / `&mut P`, return the place P, else None."""
        for _ in range(depth):
            d = self.single_def(l)
            if d is None or d[0] != "stmt":
                return None
            rv = d[3]
            if rv["k"] == "ref":
                return rv["place"]
            if rv["k"] == "use":
                p = op_place(rv["op"])
                if p is None or p["p"]:
                    # `_x = &(*_y)` handled by k=ref; `use` of projected place: stop
                    return None
                l = p["l"]
                continue
            return None
        return None

    def base_local_of_ref(self, l, depth=8):
        """Follow `_t = &mut X` / `_t = &(*_u)` / moves down to the underlying local."""
        cur = l
        for _ in range(depth):
            d = self.single_def(cur)
            if d is None or d[0] != "stmt":
                return cur
            rv = d[3]
            if rv["k"] == "ref":
                p = rv["place"]
                # &(*_u) : reborrow
                cur = p["l"]
                if not p["p"] or p["p"] == ["deref"]:
                    if not p["p"]:
                        return cur
                    continue
                return cur
            if rv["k"] in ("use", "cast"):
                p = op_place(rv["op"])
                if p is None:
                    return cur
                cur = p["l"]
                if p["p"] and p["p"] != ["deref"]:
                    return cur
                continue
            return cur
        return cur

    def ref_chain(self, l, depth=10):
        """All locals met while following `_t = &[mut] P` / moves from `l` down to the base."""
        out = [l]
        cur = l
        for _ in range(depth):
            d = self.single_def(cur)
            if d is None or d[0] != "stmt":
                break
            rv = d[3]
            if rv["k"] == "ref":
                cur = rv["place"]["l"]
            elif rv["k"] in ("use", "cast") and op_place(rv["op"]) is not None:
                cur = op_place(rv["op"])["l"]
            else:
                break
            if cur in out:
                break
            out.append(cur)
        return out

    def trace_cond(self, o, depth=12):
        """Trace a boolean operand back to what it tests. Returns (neg, kind, info):
        kind 'call' (info=(bb, term)), 'binop' (info=(bb, rv)), 'place' (info=place),
        'const' (info=bool) or 'unknown'."""
        neg = False
        for _ in range(depth):
            c = op_const(o)
            if c is not None:
                return (neg, "const", c.get("bool"))
            p = op_place(o)
            if p is None:
                return (neg, "unknown", None)
            if p["p"]:
                return (neg, "place", p)
            d = self.single_def(p["l"])
            if d is None:
                return (neg, "place", p)
            if d[0] == "call":
                return (neg, "call", (d[1], d[2]))
            if d[0] == "yield":
                return (neg, "unknown", None)
            rv = d[3]
            if rv["k"] == "use":
                o = rv["op"]
                continue
            if rv["k"] == "unop" and rv["op"] == "Not":
                neg = not neg
                o = rv["a"]
                continue
            if rv["k"] == "binop":
                return (neg, "binop", (d[1], rv))
            if rv["k"] == "discr":
                return (neg, "discr", rv["place"])
            return (neg, "unknown", None)
        return (neg, "unknown", None)

    def bool_switch(self, bb):
        """For a `SwitchInt` on a bool: (true_target, false_target, traced) where `traced` is
        trace_cond of the discriminant and the targets are w.r.t. the *traced* condition."""
        t = self.b.blocks[bb]["term"]
        if t["t"] != "switch" or t["discr_ty"] != "bool":
            return None
        f_t = None
        for v, tg in t["arms"]:
            if v == 0:
                f_t = tg
        if f_t is None:
            return None
        t_t = t["otherwise"]
        neg, kind, info = self.trace_cond(t["discr"])
        if neg:
            t_t, f_t = f_t, t_t
        return (t_t, f_t, (kind, info))

    def switches_on_call(self, rx):
        """[(switch_bb, true_target, false_target, call_bb)] for bool switches whose condition
        is the result of a call matching rx (through moves and `!`)."""
        out = []
        for i in sorted(self.live):
            bs = self.bool_switch(i)
            if bs is None:
                continue
            t_t, f_t, (kind, info) = bs
            if kind == "call" and call_matches(info[1], rx):
                out.append((i, t_t, f_t, info[0]))
        return out

    def enum_switch(self, bb):
        """For a switch on `discriminant(P)`: (place P, {value: target}, otherwise)."""
        t = self.b.blocks[bb]["term"]
        if t["t"] != "switch":
            return None
        neg, kind, info = self.trace_cond(t["discr"])
        if kind != "discr":
            return None
        return (info, {v: tg for v, tg in t["arms"]}, t["otherwise"])

    # ---- `?` (Try) sites ------------------------------------------------------------------
    def try_sites(self):
        """[(branch_bb, residual_bb, continue_bb, source)] for every `?`: `source` is the
        defining call (bb, term) of the operand of Try::branch, if it is a call."""
        out = []
        for i in self.calls(r"(<.*as )?core::ops::try_trait::Try>?::branch"):
            t = self.b.blocks[i]["term"]
            nxt = t.get("target")
            if nxt is None:
                continue
            es = self.enum_switch(nxt)
            if es is None:
                continue
            _, arms, _ = es
            cont = arms.get(0)
            brk = arms.get(1)
            src = None
            a0 = t["args"][0]
            p = op_place(a0)
            if p and not p["p"]:
                d = self.single_def(p["l"])
                while d and d[0] == "stmt" and d[3]["k"] == "use" and op_place(d[3]["op"]) and not op_place(d[3]["op"])["p"]:
                    d = self.single_def(op_place(d[3]["op"])["l"])
                if d and d[0] == "call":
                    src = (d[1], d[2])
            out.append((i, brk, cont, src))
        return out

    # ---- awaits ---------------------------------------------------------------------------
    def awaits(self):
        """[(poll_bb, yield_bb, ready_bb, callee)] one per `.await`: the `Future::poll` call,
        the Yield that suspends, and the block entered when the poll is Ready."""
        out = []
        for i in self.calls(r".*"):
            t = self.b.blocks[i]["term"]
            if t.get("macro") != "desugar:Await":
                continue
            dec = strip_generics(t.get("callee", ""))
            if not dec.endswith("future::future::Future::poll"):
                continue
            nxt = t.get("target")
            es = self.enum_switch(nxt) if nxt is not None else None
            ready = pend = None
            if es:
                _, arms, _ = es
                ready = arms.get(0)
                pend = arms.get(1)
            y = None
            if pend is not None:
                r = self.reach_incl([pend], avoid=frozenset([i]))
                ys = [x for x in r if self.b.blocks[x]["term"]["t"] == "yield"]
                y = ys[0] if ys else None
            out.append((i, y, ready, strip_generics(t.get("resolved") or t.get("callee"))))
        return out


# ------------------------------------------------------------------------------------------------
# value flow

IDENTITY_CALLS = re.compile(
    r"(.*::)?(as_ref|as_path|as_os_str|as_str|as_redo_path|deref|deref_mut|borrow|borrow_mut|clone|to_owned|"
    r"to_path_buf|to_os_string|to_redo_path_buf|to_string|into|from|into_os_string|into_path_buf|into_string|"
    r"as_mut|as_slice|unwrap|expect|map_err|branch|from_residual|into_owned|to_str|as_c_str|into_iter|iter|"
    r"next|copied|cloned|as_raw_fd|as_raw|try_into|try_from|new_unchecked|get_mut|get_ref|into_inner|into_future|fuse|"
    r"from_os_str_unchecked|from_str_unchecked|from_string_unchecked|from_os_string_unchecked|unwrap_or_default|unwrap_or)"
    r"|alloc::boxed::Box::(pin|new)|alloc::rc::Rc::new|core::pin::Pin::(new|new_unchecked|as_mut)|core::cell::(Cell|RefCell)::new")


OPAQUE_CARRIERS = re.compile(r"(&mut |&)?(state::ProcessTransaction(<.*>)?|state::ProcessState|jobserver::JobServerHandle|env::Env)")


def place_key(p):
    """Taint key of a place: its base local, except that each closure/coroutine upvar (a field of
    `_1`) is its own key, so that one captured variable does not taint the others."""
    if p["l"] == 1:
        for e in p["p"]:
            if e == "deref":
                continue
            if e.startswith("f:upvar."):
                return -(1000 + int(e[2:].split(".", 2)[1]))
            break
    return p["l"]


def taint(body, src_place=None, src_call=None, seeds=(), mode="derived", through=None, barrier_call=None, why=None):
    """Flow-insensitive forward value flow over the locals of one body (upvars are separate keys).

    A local becomes tainted when it is assigned from an rvalue that reads a tainted local or a
    place for which src_place(place) holds, or is the destination of a call for which
    src_call(term) holds, or (mode 'derived') of any call with a tainted argument, or (mode
    'direct') of such a call whose callee is identity-preserving (IDENTITY_CALLS or `through`).
    A call with a tainted argument also taints the referents of its `&mut` arguments
    (except the opaque carriers: transaction / process state / environment handles).
    barrier_call(term) -> True stops propagation through that call.
    Returns the set of tainted locals (negative numbers stand for upvars, see place_key).
    """
    ba = BA.of(body)
    tainted = set(seeds)

    def place_tainted(p):
        if p is None:
            return False
        if place_key(p) in tainted:
            return True
        if src_place is not None and src_place(p):
            return True
        return False

    def op_t(o):
        return place_tainted(op_place(o))

    def referent_keys(l):
        """Keys a `&mut` temporary may point into: the places borrowed along its ref chain."""
        out = []
        cur = l
        for _ in range(10):
            d = ba.single_def(cur)
            if d is None or d[0] != "stmt":
                break
            rv = d[3]
            if rv["k"] == "ref":
                out.append(place_key(rv["place"]))
                cur = rv["place"]["l"]
                if rv["place"]["p"] and rv["place"]["p"] != ["deref"]:
                    break
            elif rv["k"] == "use" and op_place(rv["op"]) is not None:
                cur = op_place(rv["op"])["l"]
            else:
                break
        return out or [l]

    def mark(k, reason):
        if k not in tainted:
            tainted.add(k)
            if why is not None:
                why[k] = reason
            return True
        return False

    changed = True
    while changed:
        changed = False
        for i, blk in enumerate(body.blocks):
            for s in blk["stmts"]:
                if s["s"] != "assign":
                    continue
                k = place_key(s["place"])
                if k in tainted:
                    continue
                if any(place_tainted(p) for p in rvalue_places(s["rv"])):
                    changed |= mark(k, ("stmt", i))
            t = blk["term"]
            if t["t"] == "call":
                if barrier_call is not None and barrier_call(t):
                    continue
                is_src = src_call is not None and src_call(t)
                any_t = any(op_t(a) for a in t["args"])
                idc = any(IDENTITY_CALLS.fullmatch(p) or (through is not None and through.fullmatch(p)) for p in callee_paths(t))
                flows = is_src or (any_t and (mode == "derived" or idc))
                if flows:
                    changed |= mark(place_key(t["dest"]), ("calldest", i))
                    for a, aty in zip(t["args"], t.get("arg_tys", [])):
                        if OPAQUE_CARRIERS.fullmatch(aty):
                            # the transaction / process state / environment handle threads through
                            # every call; it is not a carrier of the tracked value
                            continue
                        if aty.startswith("&mut ") or aty.startswith("core::pin::Pin<&mut"):
                            al = op_local(a)
                            if al is None:
                                continue
                            changed |= mark(al, ("outparam", i))
                            for x in referent_keys(al):
                                changed |= mark(x, ("outparam", i))
    return tainted


def upvar_index(place):
    """If place reads closure upvar i (through `_1` / `*_1`), return (i, name) else None."""
    if place["l"] != 1:
        return None
    for e in place["p"]:
        if e == "deref":
            continue
        if e.startswith("f:upvar."):
            _, idx, nm = e[2:].split(".", 2)
            return (int(idx), nm)
        return None
    return None


def closure_sites(body, closure_key=None):
    """[(bb, stmt_idx, dest_local, def_key, ops)] closure / coroutine aggregates built in body."""
    out = []
    for i, blk in enumerate(body.blocks):
        for j, s in enumerate(blk["stmts"]):
            if s["s"] == "assign" and s["rv"]["k"] == "agg" and s["rv"].get("agg") in ("closure", "coroutine", "coroutine_closure"):
                k = strip_generics(s["rv"]["def"])
                if closure_key is None or k == closure_key:
                    out.append((i, j, s["place"]["l"], k, s["rv"]["ops"]))
    return out


# ------------------------------------------------------------------------------------------------
# call graph and effects

def dyn_key(ty):
    """Normalised text of the first `dyn Trait..` object type inside a type string (binders and
    lifetimes removed), or None."""
    if ty is None:
        return None
    i = ty.find("dyn ")
    if i < 0:
        return None
    rest = ty[i:]
    depth = 0
    out = []
    for ch in rest:
        if ch in "<([":
            depth += 1
        elif ch in ">)]":
            if depth == 0:
                break
            depth -= 1
        elif ch == "," and depth == 0:
            break
        out.append(ch)
    k = "".join(out)
    k = re.sub(r"for<[^>]*>\s*", "", k)
    k = re.sub(r"'[a-z_0-9{}]+\s*", "", k)
    k = re.sub(r"\s*\+\s*$", "", k.strip())
    k = re.sub(r"\s+", " ", k)
    return k.strip()


def fnptr_key(ty):
    """Normalised text of a fn-pointer type (binders, lifetimes and the `{fn item}` suffix removed), or None."""
    if not ty:
        return None
    k = re.sub(r"\s*\{[^{}]*\}\s*$", "", ty.strip())
    k = re.sub(r"for<[^>]*>\s*", "", k)
    k = re.sub(r"'[a-z_0-9{}]+\s*", "", k)
    k = re.sub(r"\s+", " ", k).strip()
    return k if re.match(r"(unsafe )?(extern \"[^\"]*\" )?fn\(", k) else None


class CallGraph:
    """Whole-program call graph over local bodies, kept per call site.

    site_edges[body] = [(bb, target, kind)] with kind:
      'direct'  resolved direct call            'closure' closure/coroutine constructed here (may be run)
      'garg'    fn/closure passed as generic argument of a call (callee may run it; the edge is also
                recorded on the callee)          'fnref'   fn item mentioned as a value
      'dyn:<key>' call through `dyn Fn*/Future` resolved to the bodies coerced to that object type
      'trait'   virtual call of a trait method resolved to every local impl
      'fnptr:<type>' call through a fn pointer resolved to the fn items / closures that are coerced to a pointer of
                that exact type somewhere in the program (ReifyFnPointer / ClosureFnPointer casts)
      'indirect' unresolved (fn pointer of a type nothing local is coerced to): any address-taken body
    """

    def __init__(self, prog):
        self.prog = prog
        self.site_edges = {k: [] for k in prog.bodies}
        self.ext = {k: [] for k in prog.bodies}       # external callee paths per body: (path, bb)
        self.addr_taken = set()
        self.dyn_impls = {}
        self.fnptr_impls = {}
        self.garg_fns = {}
        generic_casts = []
        dyn_sites = []
        for k, b in prog.bodies.items():
            live = b.reachable()
            for i, blk in enumerate(b.blocks):
                if i not in live:
                    continue
                for s in blk["stmts"]:
                    if s["s"] != "assign":
                        continue
                    rv = s["rv"]
                    if rv["k"] == "agg" and rv.get("agg") in ("closure", "coroutine", "coroutine_closure"):
                        ck = strip_generics(rv["def"])
                        if ck in prog.bodies:
                            self.site_edges[k].append((i, ck, "closure"))
                    if rv["k"] == "cast" and "FnPointer" in rv.get("cast", ""):
                        fk_ = fnptr_key(rv.get("ty"))
                        if fk_:
                            self.fnptr_impls.setdefault(fk_, set()).update(x for x in (strip_generics(y) for y in rv.get("src_fns", [])) if x in prog.bodies)
                    if rv["k"] == "cast" and "Unsize" in rv.get("cast", ""):
                        dk = dyn_key(rv.get("ty"))
                        if dk:
                            srcs = [strip_generics(x) for x in rv.get("src_fns", [])]
                            if srcs:
                                self.dyn_impls.setdefault(dk, set()).update(x for x in srcs if x in prog.bodies)
                            else:
                                generic_casts.append((k, dk))
                    for c in rvalue_consts(rv):
                        if "fn" in c:
                            fk = strip_generics(c["fn"])
                            if fk in prog.bodies:
                                self.addr_taken.add(fk)
                                self.site_edges[k].append((i, fk, "fnref"))
                t = blk["term"]
                if t["t"] != "call" or blk.get("cleanup"):
                    continue
                tgt = None
                for p in callee_paths(t):
                    if p in prog.bodies:
                        tgt = p
                        break
                if tgt is not None:
                    self.site_edges[k].append((i, tgt, "direct"))
                else:
                    ps = callee_paths(t)
                    if ps:
                        self.ext[k].append((ps[0], i))
                    dec = strip_generics(t.get("callee", ""))
                    if "indirect" in t:
                        dyn_sites.append((k, i, "indirect", fnptr_key(t.get("indirect"))))
                    elif t.get("rkind") == "virtual" or ("resolved" not in t and re.search(r"ops::function::Fn(Mut|Once)?::call", dec)
                                                         and dyn_key((t.get("arg_tys") or [""])[0])):
                        if re.search(r"ops::function::Fn(Mut|Once)?::call|future::future::Future::poll", dec):
                            dyn_sites.append((k, i, "dyn", dyn_key((t.get("arg_tys") or [""])[0])))
                        elif "::" in dec:
                            tr, m = dec.rsplit("::", 1)
                            rx = re.compile(r"<.* as %s(<.*>)?>::%s" % (re.escape(tr), re.escape(m)))
                            for bk in prog.bodies:
                                if rx.fullmatch(bk):
                                    self.site_edges[k].append((i, bk, "trait"))
                for g in t.get("gargs", []):
                    for kk in ("fn", "closure"):
                        if kk in g:
                            gk = strip_generics(g[kk])
                            if gk in prog.bodies:
                                self.site_edges[k].append((i, gk, "garg"))
                                self.addr_taken.add(gk)
                                if tgt is not None:
                                    self.site_edges[tgt].append((-1, gk, "garg"))
                                    self.garg_fns.setdefault(tgt, set()).add(gk)
                for a in t["args"]:
                    c = op_const(a)
                    if c and "fn" in c:
                        fk = strip_generics(c["fn"])
                        if fk in prog.bodies:
                            self.site_edges[k].append((i, fk, "fnref"))
                            self.addr_taken.add(fk)
        for k, b in prog.bodies.items():
            if b.kind == "Closure":
                self.addr_taken.add(k)
        for (gk, dk) in generic_casts:
            self.dyn_impls.setdefault(dk, set()).update(self.garg_fns.get(gk, ()))
        for (k, i, kind, dk) in dyn_sites:
            cands = self.dyn_impls.get(dk) if (kind == "dyn" and dk) else None
            if kind == "indirect" and dk and self.fnptr_impls.get(dk):
                for c in sorted(self.fnptr_impls[dk]):
                    self.site_edges[k].append((i, c, "fnptr:" + dk))
            elif cands:
                for c in sorted(cands):
                    self.site_edges[k].append((i, c, "dyn:" + dk))
            else:
                self.site_edges[k].append((i, "<indirect>", "indirect"))
        self.site_edges["<indirect>"] = [(-1, a, "indirect") for a in sorted(self.addr_taken)]
        self.ext["<indirect>"] = []
        self.edges = {k: {t for (_, t, _) in v} for k, v in self.site_edges.items()}

    def reachable(self, roots, stop=frozenset(), indirect=True, site_filter=None, dyn_override=None):
        """Bodies reachable from roots. site_filter(body_key, bb, target, kind) -> False drops that
        edge; dyn_override maps a dyn key to the only bodies it may denote in this query."""
        seen = set()
        st = [r for r in roots]
        while st:
            x = st.pop()
            if x in seen or x in stop:
                continue
            if x == "<indirect>" and not indirect:
                continue
            seen.add(x)
            for (bb, t, kind) in self.site_edges.get(x, ()):
                if dyn_override is not None and kind.startswith("dyn:") and kind[4:] in dyn_override and t not in dyn_override[kind[4:]]:
                    continue
                if site_filter is not None and not site_filter(x, bb, t, kind):
                    continue
                st.append(t)
        return seen

    def callers_of(self, key):
        return sorted(k for k, es in self.edges.items() if key in es)

    def ext_calls_from(self, roots, rx, stop=frozenset(), indirect=True):
        """[(body_key, bb, path)] external calls matching rx reachable from roots."""
        if isinstance(rx, str):
            rx = re.compile(rx)
        out = []
        for k in sorted(self.reachable(roots, stop, indirect)):
            for p, bb in self.ext.get(k, []):
                if rx.fullmatch(p):
                    out.append((k, bb, p))
        return out

    def chain(self, root, target, stop=frozenset(), indirect=True, site_filter=None, dyn_override=None):
        """A call chain root -> ... -> target (list of body keys) or None."""
        prev = {root: None}
        dq = deque([root])
        while dq:
            x = dq.popleft()
            if x == target:
                out = []
                while x is not None:
                    out.append(x)
                    x = prev[x]
                return list(reversed(out))
            for (bb, y, kind) in sorted(self.site_edges.get(x, ())):
                if y in prev or y in stop:
                    continue
                if y == "<indirect>" and not indirect:
                    continue
                if dyn_override is not None and kind.startswith("dyn:") and kind[4:] in dyn_override and y not in dyn_override[kind[4:]]:
                    continue
                if site_filter is not None and not site_filter(x, bb, y, kind):
                    continue
                prev[y] = x
                dq.append(y)
        return None


def field_writes(body, field_rx):
    """[(bb, stmt_idx, stmt)] assignments whose destination place ends in a field matching rx
    (canonical 'Type.field'); also compound assignment through `&mut` is not tracked (none in
    this code base write counters through references; checked by rule R8.1's ref scan)."""
    if isinstance(field_rx, str):
        field_rx = re.compile(field_rx)
    out = []
    live = body.reachable()
    for i, blk in enumerate(body.blocks):
        if i not in live or blk.get("cleanup"):
            continue
        for j, s in enumerate(blk["stmts"]):
            if s["s"] != "assign":
                continue
            fs = place_fields(s["place"])
            if fs and field_rx.fullmatch(fs[-1]):
                out.append((i, j, s))
    return out


def field_mut_refs(body, field_rx):
    """[(bb, stmt_idx)] `&mut` borrows (or raw ptrs) of a place ending in a matching field."""
    if isinstance(field_rx, str):
        field_rx = re.compile(field_rx)
    out = []
    live = body.reachable()
    for i, blk in enumerate(body.blocks):
        if i not in live or blk.get("cleanup"):
            continue
        for j, s in enumerate(blk["stmts"]):
            if s["s"] != "assign":
                continue
            rv = s["rv"]
            if (rv["k"] == "ref" and rv["mut"]) or rv["k"] == "rawptr":
                fs = place_fields(rv["place"])
                if fs and field_rx.fullmatch(fs[-1]):
                    out.append((i, j))
    return out


def field_reads(body, field_rx):
    if isinstance(field_rx, str):
        field_rx = re.compile(field_rx)
    out = []
    live = body.reachable()
    for i, blk in enumerate(body.blocks):
        if i not in live or blk.get("cleanup"):
            continue
        for j, s in enumerate(blk["stmts"]):
            if s["s"] != "assign":
                continue
            for p in rvalue_places(s["rv"]):
                fs = place_fields(p)
                if any(field_rx.fullmatch(f) for f in fs):
                    out.append((i, j))
        t = blk["term"]
        ops = []
        if t["t"] == "call":
            ops = t["args"]
        elif t["t"] == "switch":
            ops = [t["discr"]]
        for o in ops:
            p = op_place(o)
            if p and any(field_rx.fullmatch(f) for f in place_fields(p)):
                out.append((i, "term"))
    return out


def decode_bytestr(pretty):
    """Decode a pretty-printed Rust byte-string constant `b"..."` to bytes (or None)."""
    m = re.fullmatch(r'b"(.*)"', pretty, re.S)
    if not m:
        return None
    src = m.group(1)
    out = bytearray()
    i = 0
    while i < len(src):
        c = src[i]
        if c == "\\" and i + 1 < len(src):
            n = src[i + 1]
            if n == "x":
                out.append(int(src[i + 2:i + 4], 16))
                i += 4
                continue
            out.append({"n": 10, "r": 13, "t": 9, "0": 0, "\\": 92, '"': 34, "'": 39}.get(n, ord(n)))
            i += 2
            continue
        out.extend(c.encode("utf-8"))
        i += 1
    return bytes(out)


def decode_fmt_template(bs):
    """Decode the `format_args!` byte template of this toolchain: a length byte (< 0x80)
    introduces a literal piece of that length; bytes >= 0x80 are placeholder opcodes
    (0xc0 = next argument, default spec; others carry flags/precision bytes). Returns
    [('lit', text) | ('arg', opcode_bytes)]. Best effort: unknown opcodes are kept raw."""
    out = []
    i = 0
    while i < len(bs):
        b = bs[i]
        if b == 0:
            break
        if b < 0x80:
            out.append(("lit", bs[i + 1:i + 1 + b].decode("utf-8", "replace")))
            i += 1 + b
        else:
            # placeholder opcode 0xc0 | bits: 1 = 4 flag bytes, 2 = 2 width bytes, 4 = 2 precision bytes,
            # 8 = 2 argument-index bytes (as emitted by this toolchain's format_args! lowering)
            n = (4 if b & 1 else 0) + (2 if b & 2 else 0) + (2 if b & 4 else 0) + (2 if b & 8 else 0)
            j = i + 1 + n
            extra = bs[i + 1:j]
            out.append(("arg", bytes([b]) + bytes(extra)))
            i = j
    return out


def _printable(b):
    return all(32 <= x < 127 or x in (9, 10) for x in b) and len(b) > 0


def str_consts(body):
    """[(bb, where, string)] every string literal constant mentioned by the body."""
    out = []
    live = body.reachable()
    for i, blk in enumerate(body.blocks):
        if i not in live:
            continue
        for j, s in enumerate(blk["stmts"]):
            if s["s"] != "assign":
                continue
            for c in rvalue_consts(s["rv"]):
                if "str" in c:
                    out.append((i, j, c["str"], c.get("named")))
                elif c.get("pretty", "").startswith('b"') and s.get("macro", "").startswith("desugar:FormatLiteral"):
                    bs = decode_bytestr(c["pretty"])
                    if bs is not None:
                        txt = "".join(x[1] if x[0] == "lit" else "{}" for x in decode_fmt_template(bs))
                        out.append((i, j, txt, "format_args"))
        t = blk["term"]
        if t["t"] == "call":
            for a in t["args"]:
                c = op_const(a)
                if c and "str" in c:
                    out.append((i, "term", c["str"], c.get("named")))
    return out


# ------------------------------------------------------------------------------------------------
# feasible paths (appended; used by the dirtiness-routine rules)

class FA:
    """Path feasibility over *enum-valued locals*: the relations of BA (path / reach / dominates /
    edge_dominates) restricted to paths on which every `SwitchInt` on the discriminant of a local (or on a
    bool local) whose value is *known* along that path takes the arm of that value.

    A CFG join followed by a re-split on the joined value (`let v = if c {A} else {B}; match v {..}`, a
    helper whose `Option`/`Result`/enum result is matched by the caller and that canon.py spliced in,
    `dirty = X; .. match dirty`) creates block paths no execution takes; must-pass-through and dominance
    over plain block reachability then report paths that do not exist. This class walks (block, env)
    states instead, env: local -> abstract value
        ("v", adt, variant, ((field, value), ..))   an enum aggregate (payload values where known)
        ("b", bool)                                 a bool constant
        ("disc", variant)                           discriminant of a known variant
        ("discof", local)                           discriminant of a local whose variant is not known yet
                                                    (the switch arm taken then fixes that local's variant)
        ("call", bb, negated)                       the bool result of the call at block bb (possibly through `!`):
                                                    both arms are feasible, but the arm taken tells the outcome
                                                    of that call (call_outcomes) and fixes the local to it
    propagated through whole-local moves/copies, variant downcast+field reads, aggregate construction, `!`
    and `Try::branch` (Ok(x)/Some(x) -> Continue(x), Err/None -> Break) / `FromResidual::from_residual` (the
    failure variant of the destination type). Everything else makes the local
    unknown. Only locals that feed a switch discriminant are tracked, and never one whose address is taken
    mutably or as a raw pointer. Unknown values take every arm, so the feasible paths are a superset of
    the executable ones (a rule that looks for a path never loses one that can happen); a query that starts
    in the middle of the body starts with nothing known."""

    _cache = {}
    STATE_CAP = 400000

    @classmethod
    def of(cls, body):
        a = cls._cache.get(id(body))
        if a is None:
            a = cls(body)
            cls._cache[id(body)] = a
        return a

    def __init__(self, body):
        self.b = body
        self.ba = BA.of(body)
        self.tracked = self._tracked()
        self._live = None

    # ---- which locals are worth tracking ---------------------------------------------------
    def _tracked(self):
        b = self.b
        excluded = set()
        rel = set()
        for blk in b.blocks:
            for s in blk["stmts"]:
                if s["s"] != "assign":
                    continue
                rv = s["rv"]
                if (rv["k"] == "ref" and rv.get("mut")) or rv["k"] == "rawptr":
                    excluded.add(rv["place"]["l"])
            t = blk["term"]
            if t["t"] == "switch":
                p = op_place(t["discr"])
                if p is not None and not p["p"]:
                    rel.add(p["l"])
        changed = True
        while changed:
            changed = False
            for blk in b.blocks:
                for s in blk["stmts"]:
                    if s["s"] != "assign" or s["place"]["p"] or s["place"]["l"] not in rel:
                        continue
                    rv = s["rv"]
                    src = []
                    if rv["k"] == "use":
                        src = [op_place(rv["op"])]
                    elif rv["k"] == "unop" and rv["op"] == "Not":
                        src = [op_place(rv["a"])]
                    elif rv["k"] == "discr":
                        src = [rv["place"]] if not rv["place"]["p"] else []
                    elif rv["k"] == "agg" and rv.get("agg") == "adt":
                        src = [op_place(o) for o in rv["ops"]]
                    for p in src:
                        if p is not None and p["l"] not in rel and all(e.startswith("as:") or e.startswith("f:") for e in p["p"]):
                            rel.add(p["l"])
                            changed = True
                t = blk["term"]
                if t["t"] == "call" and not t["dest"]["p"] and t["dest"]["l"] in rel and self._is_try_branch(t):
                    p = op_place(t["args"][0])
                    if p is not None and not p["p"] and p["l"] not in rel:
                        rel.add(p["l"])
                        changed = True
                # `r.is_err()` / `o.is_some()` ...: the tested Result / Option (seen through the shared borrow taken for the call)
                if t["t"] == "call" and not t["dest"]["p"] and t["dest"]["l"] in rel and self._variant_test(t) is not None:
                    r = self._variant_test_subject(t)
                    if r is not None and r not in rel:
                        rel.add(r)
                        changed = True
        return rel - excluded

    _VTEST = re.compile(r"core::result::Result::(is_ok|is_err)|core::option::Option::(is_some|is_none)")

    @classmethod
    def _variant_test(cls, t):
        """(adt, variant that makes the call return true) for `Result::is_ok/is_err`, `Option::is_some/is_none`."""
        for q in callee_paths(t):
            m = cls._VTEST.fullmatch(q)
            if m and len(t.get("args", [])) == 1:
                name = m.group(1) or m.group(2)
                return {"is_ok": ("core::result::Result", "Ok"), "is_err": ("core::result::Result", "Err"),
                        "is_some": ("core::option::Option", "Some"), "is_none": ("core::option::Option", "None")}[name]
        return None

    def _variant_test_subject(self, t):
        """The whole local the variant test looks at (`is_err(&x)` / `is_err(move r)` with `r = &x`), or None."""
        l = op_local(t["args"][0])
        if l is None:
            return None
        pl = self.ba.resolve_ref(l)
        if pl is not None and not pl["p"]:
            return pl["l"]
        return None

    @staticmethod
    def _is_try_branch(t):
        return any(re.fullmatch(r"(<.* as )?core::ops::try_trait::Try>?::branch", p) for p in callee_paths(t)) and len(t.get("args", [])) == 1

    # ---- abstract values --------------------------------------------------------------------
    def _place_val(self, p, env):
        v = env.get(p["l"])
        proj = p["p"]
        i = 0
        while v is not None and i < len(proj):
            e = proj[i]
            if e.startswith("as:") and i + 1 < len(proj) and proj[i + 1].startswith("f:") and v[0] == "v" and v[2] == e[3:]:
                v = dict(v[3]).get(proj[i + 1][2:].rsplit(".", 1)[-1])
                i += 2
            else:
                return None
        return v

    def _op_val(self, o, env):
        c = op_const(o)
        if c is not None:
            return ("b", c["bool"]) if "bool" in c else None
        p = op_place(o)
        return self._place_val(p, env) if p is not None else None

    @staticmethod
    def _kill(env, l):
        env.pop(l, None)
        for k in [k for k, v in env.items() if v[0] == "discof" and v[1] == l]:
            del env[k]

    def _assign(self, env, s):
        dst = s["place"]
        l = dst["l"]
        if l not in self.tracked:
            return
        if dst["p"]:
            self._kill(env, l)
            return
        rv = s["rv"]
        k = rv["k"]
        v = None
        if k == "use":
            v = self._op_val(rv["op"], env)
        elif k == "unop" and rv["op"] == "Not":
            a = self._op_val(rv["a"], env)
            v = ("b", not a[1]) if a is not None and a[0] == "b" else (("call", a[1], not a[2]) if a is not None and a[0] == "call" else None)
        elif k == "discr":
            p = rv["place"]
            if not p["p"]:
                pv = env.get(p["l"])
                if pv is not None and pv[0] == "v":
                    v = ("disc", pv[2])
                elif p["l"] in self.tracked and p["l"] != l:
                    v = ("discof", p["l"])
        elif k == "agg" and rv.get("agg") == "adt" and rv.get("variant") is not None:
            pay = []
            for f, o in zip(rv.get("fields", []), rv["ops"]):
                ov = self._op_val(o, env)
                if ov is not None and ov[0] in ("v", "b"):
                    pay.append((f, ov))
            v = ("v", rv["adt"], rv["variant"], tuple(pay))
        self._kill(env, l)
        if v is not None:
            env[l] = v

    def _branch_val(self, t, env):
        a = self._op_val(t["args"][0], env)
        if a is None or a[0] != "v":
            return None
        cf = "core::ops::control_flow::ControlFlow"
        if a[1] == "core::result::Result" and a[2] == "Ok" or a[1] == "core::option::Option" and a[2] == "Some":
            return ("v", cf, "Continue", a[3])
        if a[1] == "core::result::Result" and a[2] == "Err" or a[1] == "core::option::Option" and a[2] == "None":
            return ("v", cf, "Break", ())
        return None

    def env_before_term(self, bb, envt):
        """The environment (dict) after the statements of bb, before its terminator acts."""
        env = dict(envt)
        for s in self.b.blocks[bb]["stmts"]:
            if s["s"] == "assign":
                self._assign(env, s)
        return env

    def step(self, bb, envt=()):
        """Successor states [(block, env-tuple)] of executing block bb under the env-tuple `envt` (public form)."""
        return self._step(bb, envt)

    def _step(self, bb, envt):
        """Successor states [(block, env-tuple)] of executing block bb under env."""
        blk = self.b.blocks[bb]
        env = self.env_before_term(bb, envt)
        t = blk["term"]
        k = t["t"]
        succ = self.b.succ(bb)
        if k == "call":
            d = t["dest"]
            if d["l"] in self.tracked:
                v = None
                if not d["p"] and self._is_try_branch(t):
                    v = self._branch_val(t, env)
                elif not d["p"] and any(re.fullmatch(r"(<.* as )?core::ops::try_trait::FromResidual(<.*>)?>?::from_residual", q) for q in callee_paths(t)):
                    # the residual of `?` is the failure half by type (Result<Infallible, E> / Option<Infallible>):
                    # what from_residual builds is the failure variant of the destination type
                    ty = self.b.locals[d["l"]]
                    for adt, var in (("core::result::Result", "Err"), ("core::option::Option", "None"), ("core::ops::control_flow::ControlFlow", "Break")):
                        if ty.startswith(adt + "<"):
                            v = ("v", adt, var, ())
                if v is None and not d["p"] and self._variant_test(t) is not None:
                    subj = self._variant_test_subject(t)
                    sv = env.get(subj) if subj is not None else None
                    if sv is not None and sv[0] == "v":
                        adt, var = self._variant_test(t)
                        if sv[1] == adt:
                            v = ("b", sv[2] == var)
                if v is None and not d["p"] and self._variant_test(t) is not None:
                    # variant not known yet: remember that the subject is what this call looked at; the branch on the
                    # call's result then tells the variant (unless the subject was assigned in between: any assignment
                    # replaces the marker)
                    subj = self._variant_test_subject(t)
                    if subj is not None and subj in self.tracked and subj != d["l"]:
                        env[subj] = ("untested", bb)
                if v is None and not d["p"] and self.b.locals[d["l"]] == "bool":
                    v = ("call", bb, False)
                self._kill(env, d["l"])
                if v is not None:
                    env[d["l"]] = v
        elif k == "yield":
            ra = t.get("resume_arg")
            if ra is not None and ra["l"] in self.tracked:
                self._kill(env, ra["l"])
        elif k == "switch" and len(succ) > 1:
            p = op_place(t["discr"])
            v = env.get(p["l"]) if p is not None and not p["p"] else None
            arms = {a: tg for a, tg in t["arms"]}
            if v is not None and v[0] == "b":
                tg = arms.get(1 if v[1] else 0, t["otherwise"])
                succ = [x for x in succ if x == tg]
            elif v is not None and v[0] == "call":
                out = []
                for x in succ:
                    val = (x != arms.get(0)) if 0 in arms else None
                    e2 = dict(env)
                    if val is not None:
                        e2[p["l"]] = ("b", val)
                        # every other local that still holds the same call's result (the named `let found = f();` the
                        # switched temporary was copied from, or its negation) is decided by this arm too
                        truth = val != v[2]
                        for l2, v2 in list(e2.items()):
                            if l2 != p["l"] and v2[0] == "call" and v2[1] == v[1]:
                                e2[l2] = ("b", truth != v2[2])
                        # the call was `x.is_some()` & co. and x is untouched since: this arm fixes x's variant
                        ct = self.b.blocks[v[1]]["term"]
                        vt = self._variant_test(ct) if ct["t"] == "call" else None
                        if vt is not None:
                            subj = self._variant_test_subject(ct)
                            if subj is not None and e2.get(subj) == ("untested", v[1]):
                                adt, var = vt
                                if not truth:
                                    var = {"Ok": "Err", "Err": "Ok", "Some": "None", "None": "Some"}[var]
                                e2[subj] = ("v", adt, var, ())
                    out.append((x, self._freeze(e2)))
                return out
            elif v is not None and v[0] == "disc" and t.get("enum_variants"):
                val = {n: dv for dv, n in t["enum_variants"]}.get(v[1])
                if val is not None:
                    tg = arms.get(val, t["otherwise"])
                    succ = [x for x in succ if x == tg]
            elif v is not None and v[0] == "discof" and t.get("enum_variants") and t.get("enum"):
                names = {dv: n for dv, n in t["enum_variants"]}
                out = []
                seen_t = set()
                for a, tg in t["arms"]:
                    if tg not in succ or a not in names:
                        continue
                    e2 = dict(env)
                    self._kill(e2, v[1])
                    e2[v[1]] = ("v", t["enum"], names[a], ())
                    e2[p["l"]] = ("disc", names[a])
                    out.append((tg, self._freeze(e2)))
                    seen_t.add(a)
                if t["otherwise"] in succ:
                    rest = [n for dv, n in t["enum_variants"] if dv not in arms]
                    e2 = dict(env)
                    if len(rest) == 1:
                        self._kill(e2, v[1])
                        e2[v[1]] = ("v", t["enum"], rest[0], ())
                    out.append((t["otherwise"], self._freeze(e2)))
                return out
        fe = self._freeze(env)
        return [(x, fe) for x in succ]

    @staticmethod
    def _freeze(env):
        return tuple(sorted(env.items()))

    # ---- relations --------------------------------------------------------------------------
    def call_outcomes(self, cbb):
        """{True: [state..], False: [state..]}: the (block, env) states entered by the first branch that decides on
        the bool result of the call at block cbb - directly, through `!`, or after the result was stored in a
        local next to constants (`let c = a && f();  ..  if c`). States can be handed to path(.., states=..)."""
        out = {True: [], False: []}
        seen = set()
        todo = [(cbb, ())]
        first = True
        while todo:
            st = todo.pop()
            if st in seen:
                continue
            seen.add(st)
            if len(seen) > self.STATE_CAP:
                return {True: [], False: []}
            bb, envt = st
            if bb == cbb and not first:
                continue
            first = False
            t = self.b.blocks[bb]["term"]
            if t["t"] == "switch":
                env = self.env_before_term(bb, envt)
                p = op_place(t["discr"])
                v = env.get(p["l"]) if p is not None and not p["p"] else None
                if v is not None and v[0] == "call" and v[1] == cbb:
                    f_t = {a: tg for a, tg in t["arms"]}.get(0)
                    for (x, e) in self._step(bb, envt):
                        taken_true = x != f_t
                        out[taken_true != v[2]].append((x, e))
                    continue
            for n in self._step(bb, envt):
                # only while the call's result is still around
                if any(val[0] == "call" and val[1] == cbb for _, val in n[1]) or bb == cbb:
                    todo.append(n)
        return out

    def _decides_call(self, bb, envt):
        """If the switch ending block bb branches on the (possibly negated, possibly stored) bool result of a call:
        (call_bb, negated, false_target), else None."""
        t = self.b.blocks[bb]["term"]
        if t["t"] != "switch":
            return None
        env = self.env_before_term(bb, envt)
        p = op_place(t["discr"])
        v = env.get(p["l"]) if p is not None and not p["p"] else None
        if v is not None and v[0] == "call":
            return (v[1], v[2], {a: tg for a, tg in t["arms"]}.get(0))
        return None

    def _search(self, starts, goal, avoid, cut_edges, incl, want_path, states=(), forced_calls=None):
        goal = None if goal is None else set(goal)
        forced_calls = forced_calls or {}

        def allowed(bb, envt, x):
            """with `forced_calls` {call_bb: outcome}: a branch that decides on such a call takes only the matching arm"""
            if not forced_calls:
                return True
            dc = self._decides_call(bb, envt)
            if dc is None or dc[0] not in forced_calls:
                return True
            taken_true = x != dc[2]
            return (taken_true != dc[1]) == forced_calls[dc[0]]
        prev = {}
        dq = deque()
        seen_blocks = set()

        def push(st, pr):
            if st in prev:
                return False
            prev[st] = pr
            dq.append(st)
            seen_blocks.add(st[0])
            return True

        def unwind(st, head=None):
            out = [st[0]]
            p = prev[st]
            while p is not None:
                if isinstance(p, int):
                    out.append(p)
                    break
                out.append(p[0])
                p = prev[p]
            return list(reversed(out))

        for st in states:
            if st[0] in avoid:
                continue
            if push(st, None) and goal is not None and st[0] in goal:
                return unwind(st) if want_path else True
        if incl:
            for s in starts:
                if s in avoid:
                    continue
                st = (s, ())
                if push(st, None) and goal is not None and s in goal:
                    return unwind(st) if want_path else True
        else:
            for s in starts:
                for (x, e) in self._step(s, ()):
                    if (s, x) in cut_edges or x in avoid or not allowed(s, (), x):
                        continue
                    st = (x, e)
                    if push(st, s) and goal is not None and x in goal:
                        return unwind(st) if want_path else True
        while dq:
            if len(prev) > self.STATE_CAP:
                return "cap"
            st = dq.popleft()
            for (x, e) in self._step(st[0], st[1]):
                if (st[0], x) in cut_edges or x in avoid or not allowed(st[0], st[1], x):
                    continue
                n = (x, e)
                if push(n, st) and goal is not None and x in goal:
                    return unwind(n) if want_path else True
        return seen_blocks if goal is None else None

    def path(self, starts, goal, avoid=frozenset(), cut_edges=frozenset(), incl=False, states=(), forced_calls=None):
        """A feasible witness path (list of blocks) from a start block (nothing known on entry) or from one of the
        given (block, env) `states` to a block of `goal`, or None."""
        r = self._search(list(starts), list(goal), frozenset(avoid), frozenset(cut_edges), incl, True, states=tuple(states), forced_calls=forced_calls)
        if r == "cap":
            return self.ba.path(list(starts) + [st[0] for st in states], goal, avoid=frozenset(avoid), cut_edges=frozenset(cut_edges), incl=True if states else incl)
        return r

    def reach_incl(self, starts, avoid=frozenset(), cut_edges=frozenset(), forced_calls=None):
        r = self._search(list(starts), None, frozenset(avoid), frozenset(cut_edges), True, False, forced_calls=forced_calls)
        if r == "cap":
            return self.ba.reach_incl(starts, avoid=frozenset(avoid), cut_edges=frozenset(cut_edges))
        return r

    @property
    def live(self):
        if self._live is None:
            self._live = self.reach_incl([0])
        return self._live

    def dominates(self, a, b):
        """Every feasible entry->b path passes a (False when b is not feasibly reachable, as BA.dominates)."""
        if b not in self.live:
            return False
        if a == b:
            return True
        return self.path([0], [b], avoid=frozenset([a]), incl=True) is None

    def edge_dominates(self, edge, b):
        """Every feasible entry->b path uses `edge` (s,t)."""
        if b not in self.live:
            return True
        return self.path([0], [b], cut_edges=frozenset([edge]), incl=True) is None



# ------------------------------------------------------------------------------------------------
# field-sensitive direct value flow (appended; used by the builder rules)

class FieldTaint:
    """taint(mode='direct') with *access paths* instead of whole locals: which places hold (a direct alias of) the
    seeded value, when values travel inside struct / tuple / enum-payload fields of locals.

    taint() keys on the base local, so a struct local built from several values (`Recorder { t, tmp_name, rv }`, a
    parameter bundle, a tuple returned by a helper) mixes them: every field read afterwards carries every source.
    Here the unit is (base, field path): an aggregate statement taints only the field its operand is stored in, a
    read of `s.f` (also through `&s` / `&mut s` temporaries, e.g. the `self` of a spliced method) sees only what was
    stored in `f`, a whole-struct move carries the paths along, a write `s.f = x` / `(*self).f = x` taints only `f`.
    References are transparent (a borrow of a place is that place), as in taint(). Locals with a single definition
    that is a plain use / borrow / cast of a place are substituted by that place (copy propagation); everything
    else propagates to a fixed point, flow-insensitively. Identity-preserving calls (IDENTITY_CALLS, `through`)
    whose argument touches a tainted path taint their result (and the referents of their `&mut` arguments) as a
    whole, like taint(). Never less precise than taint(mode='direct'); a subset of its result.

    seeds: locals tainted as a whole (negative numbers = closure upvars, see place_key);
    seed_paths: (local or upvar key, ('Type.field', ..)) pairs; src_place(place) as in taint().
    `.T` is the set of tainted (key, path); see whole_locals(), touching()."""

    def __init__(self, body, seeds=(), seed_paths=(), src_place=None, through=None):
        self.b = body
        self.ba = BA.of(body)
        self.src_place = src_place
        self.through = through
        self._alias = {}
        self.T = set()
        for l in seeds:
            self.T.add(self.norm({"l": l, "p": []}) if l >= 0 else (l, ()))
        for (l, path) in seed_paths:
            k, pre = self.norm({"l": l, "p": []}) if l >= 0 else (l, ())
            self.T.add((k, pre + tuple(path)))
        if src_place is not None:
            # source places are seeded by their normalised path once, so that a copy-propagated local standing for
            # one (`t = move self.t`) is recognised wherever it is read
            for blk in body.blocks:
                ps = []
                for s in blk["stmts"]:
                    if s["s"] == "assign":
                        ps.extend(rvalue_places(s["rv"]))
                t = blk["term"]
                if t["t"] == "call":
                    ps.extend(x for x in (op_place(a) for a in t["args"]) if x is not None)
                elif t["t"] == "switch":
                    ps.extend(x for x in [op_place(t["discr"])] if x is not None)
                for p_ in ps:
                    if src_place(p_):
                        self.T.add(self.norm(p_))
        self._run()

    # ---- places -----------------------------------------------------------------------------
    @staticmethod
    def split(p):
        """(key, [field names]) of a raw place: upvars are keys of their own; deref / downcast are transparent;
        an index / subslice projection ends the path (the element is taken for the container)."""
        key = p["l"]
        elems = list(p["p"])
        path = []
        if p["l"] == 1:
            for n_, e in enumerate(elems):
                if e == "deref":
                    continue
                if e.startswith("f:upvar."):
                    key = -(1000 + int(e[2:].split(".", 2)[1]))
                    elems = elems[n_ + 1:]
                break
        for e in elems:
            if e == "deref" or e.startswith("as:"):
                continue
            if e.startswith("f:"):
                path.append(e[2:])
                continue
            break
        return key, path

    def alias_of(self, l, depth=0):
        """The (key, path) a single-definition copy / borrow local stands for, else None."""
        if l in self._alias:
            return self._alias[l]
        self._alias[l] = None
        if l < 0 or depth > 24 or (1 <= l <= self.b.arg_count):
            return None
        ds = [d for d in self.ba.defs.get(l, []) if d[0] in ("stmt", "call", "yield")]   # (writes *through* it do not redefine it)
        if len(ds) != 1 or ds[0][0] != "stmt":
            return None
        rv = ds[0][3]
        if rv["k"] in ("use", "cast"):
            p = op_place(rv["op"])
        elif rv["k"] in ("ref", "rawptr"):
            p = rv["place"]
        else:
            p = None
        if p is None:
            return None
        r = self.norm(p, depth + 1)
        self._alias[l] = r
        return r

    def norm(self, p, depth=0):
        key, path = self.split(p)
        if key >= 0:
            a = self.alias_of(key, depth)
            if a is not None:
                return a[0], a[1] + tuple(path)
        return key, tuple(path)

    # ---- queries ----------------------------------------------------------------------------
    def touching(self, np_):
        """Tainted paths related to the normalised place np_: (whole, [suffixes]) - `whole` when np_ lies inside a
        tainted path (its whole value is the tracked value or part of it), suffixes: tainted paths strictly below."""
        k, p = np_
        whole = False
        suff = []
        for (tk, tp) in self.T:
            if tk != k:
                continue
            if len(tp) <= len(p) and p[:len(tp)] == tp:
                whole = True
            elif len(tp) > len(p) and tp[:len(p)] == p:
                suff.append(tp[len(p):])
        return whole, suff

    def place_paths(self, p):
        """Field paths below raw place `p` that hold the tracked value: [()] when p itself does, else the suffixes."""
        if p is None:
            return []
        whole, suff = self.touching(self.norm(p))
        return [()] if whole else sorted(set(suff))

    def operand_paths(self, o):
        return self.place_paths(op_place(o))

    def whole_locals(self):
        out = set()
        for l in range(len(self.b.locals)):
            if self.touching(self.norm({"l": l, "p": []}))[0]:
                out.add(l)
        for (k, p) in self.T:
            if k < 0 and not p:
                out.add(k)
        return out

    # ---- propagation ------------------------------------------------------------------------
    def _transfer(self, src, dst):
        ch = False
        for s_ in self.place_paths(src):
            d2 = (dst[0], dst[1] + tuple(s_))
            if d2 not in self.T:
                self.T.add(d2)
                ch = True
        return ch

    @staticmethod
    def agg_field_names(rv):
        if rv.get("agg") == "adt":
            adt, var = rv.get("adt", "?"), rv.get("variant")
            pre = adt if (var is None or adt.rsplit("::", 1)[-1] == var) else "%s::%s" % (adt, var)
            fs = rv.get("fields") or []
            return ["%s.%s" % (pre, f) for f in fs] if len(fs) == len(rv["ops"]) else None
        if rv.get("agg") == "tuple":
            return ["tuple.%d" % i for i in range(len(rv["ops"]))]
        return None

    _OKSOME = ("core::option::Option::Some.0", "core::result::Result::Ok.0")
    _UNWRAP = re.compile(r"(.*::)?(unwrap|expect|unwrap_or|unwrap_or_default|unwrap_unchecked)")
    _BRANCH = re.compile(r"(<.* as )?core::ops::try_trait::Try>?::branch")
    _SAME_SHAPE = re.compile(r"(.*::)?(clone|to_owned|borrow|borrow_mut|as_ref|as_mut|deref|deref_mut|cloned|copied|map_err|as_deref|as_deref_mut)")

    def _through_call(self, t, suffix):
        """Where, inside the result of identity-preserving call `t`, does a value sit that sits at field path
        `suffix` inside an argument: [path, ..]. () = the result as a whole. The wrappers that every `?` / unwrap
        goes through are followed exactly (Ok(x)/Some(x) -> Continue(x); unwrap -> x; clone / as_ref / map_err keep
        the shape); any other identity call whose argument merely *contains* the value taints its whole result."""
        if not suffix:
            return [()]
        ps = callee_paths(t)
        if any(self._BRANCH.fullmatch(p) for p in ps):
            if suffix[0] in self._OKSOME:
                return [("core::ops::control_flow::ControlFlow::Continue.0",) + suffix[1:]]
            return [("core::ops::control_flow::ControlFlow::Break.0",)]
        if any(self._UNWRAP.fullmatch(p) for p in ps):
            return [suffix[1:]] if suffix[0] in self._OKSOME else []
        if any(self._SAME_SHAPE.fullmatch(p) for p in ps):
            return [suffix]
        return [()]

    def _run(self):
        body = self.b
        changed = True
        rounds = 0
        while changed and rounds < 60:
            changed = False
            rounds += 1
            for i, blk in enumerate(body.blocks):
                for s in blk["stmts"]:
                    if s["s"] != "assign":
                        continue
                    d = s["place"]
                    if not d["p"] and self.alias_of(d["l"]) is not None:
                        continue            # substituted
                    dst = self.norm(d)
                    rv = s["rv"]
                    k = rv["k"]
                    if k in ("use", "cast", "repeat"):
                        changed |= self._transfer(op_place(rv["op"]), dst)
                    elif k in ("ref", "rawptr"):
                        changed |= self._transfer(rv["place"], dst)
                    elif k == "agg":
                        names = self.agg_field_names(rv)
                        for n_, o in enumerate(rv["ops"]):
                            sub = dst if names is None else (dst[0], dst[1] + (names[n_],))
                            changed |= self._transfer(op_place(o), sub)
                t = blk["term"]
                if t["t"] == "call":
                    idc = any(IDENTITY_CALLS.fullmatch(p) or (self.through is not None and self.through.fullmatch(p)) for p in callee_paths(t))
                    if idc and any(self.operand_paths(a) for a in t["args"]):
                        dst = self.norm(t["dest"])
                        for a in t["args"]:
                            for s_ in self.operand_paths(a):
                                for d_ in self._through_call(t, tuple(s_)):
                                    d2 = (dst[0], dst[1] + d_)
                                    if d2 not in self.T:
                                        self.T.add(d2)
                                        changed = True
                        for a, aty in zip(t["args"], t.get("arg_tys", [])):
                            if OPAQUE_CARRIERS.fullmatch(aty):
                                continue
                            if aty.startswith("&mut ") or aty.startswith("core::pin::Pin<&mut"):
                                p = op_place(a)
                                if p is None:
                                    continue
                                dd = self.norm(p)
                                if dd not in self.T:
                                    self.T.add(dd)
                                    changed = True


def ftaint(body, seeds=(), seed_paths=(), src_place=None, through=None):
    """Locals (negative numbers = closure upvars) whose whole value is a direct alias of the seeded value, computed
    field-sensitively (FieldTaint). Drop-in for taint(mode='direct') where struct locals must not mix their fields."""
    return FieldTaint(body, seeds=seeds, seed_paths=seed_paths, src_place=src_place, through=through).whole_locals()


class FAL(FA):
    """FA with the environment restricted, at every block entry, to the tracked locals that are *live* there (read
    on some path before being overwritten). A dead local's remembered variant can never decide a later switch, so
    the feasible paths are exactly FA's; but states that differ only in dead values collapse, and the search stays
    far below STATE_CAP on the large builder bodies (start_self, record_new_state, the scheduler), where FA itself
    runs into the cap and silently falls back to plain block reachability."""

    _cache = {}

    def __init__(self, body):
        FA.__init__(self, body)
        self._live_in = self._liveness()

    def _liveness(self):
        b = self.b
        tr = self.tracked
        n = len(b.blocks)
        use = [set() for _ in range(n)]
        dfn = [set() for _ in range(n)]

        def rd(i, l):
            if l in tr and l not in dfn[i]:
                use[i].add(l)

        for i, blk in enumerate(b.blocks):
            for s in blk["stmts"]:
                if s["s"] != "assign":
                    rd(i, s["place"]["l"])
                    continue
                for p in rvalue_places(s["rv"]):
                    rd(i, p["l"])
                    for e in p["p"]:
                        if e.startswith("index:"):
                            rd(i, int(e[6:]))
                d = s["place"]
                if d["p"]:
                    rd(i, d["l"])
                elif d["l"] in tr:
                    dfn[i].add(d["l"])
            t = blk["term"]
            k = t["t"]
            if k == "call":
                for a in t["args"]:
                    p = op_place(a)
                    if p is not None:
                        rd(i, p["l"])
                d = t["dest"]
                if d["p"]:
                    rd(i, d["l"])
                elif d["l"] in tr:
                    dfn[i].add(d["l"])
            elif k == "switch":
                p = op_place(t["discr"])
                if p is not None:
                    rd(i, p["l"])
                    v = None
            elif k == "yield":
                p = op_place(t.get("value"))
                if p is not None:
                    rd(i, p["l"])
                ra = t.get("resume_arg")
                if ra is not None and not ra["p"] and ra["l"] in tr:
                    dfn[i].add(ra["l"])
            elif k == "assert":
                p = op_place(t.get("cond"))
                if p is not None:
                    rd(i, p["l"])
            elif k == "return":
                rd(i, 0)
        # a local whose discriminant is held by another local (`d = discriminant(x); switch d` fixes x's variant):
        # x's known variant is consulted when d is read, so reading d keeps nothing more alive; nothing to add.
        live_in = [set() for _ in range(n)]
        live_out = [set() for _ in range(n)]
        changed = True
        order = list(range(n - 1, -1, -1))
        while changed:
            changed = False
            for i in order:
                out = set()
                for s_ in b.succ(i):
                    out |= live_in[s_]
                li = use[i] | (out - dfn[i])
                if out != live_out[i] or li != live_in[i]:
                    live_out[i], live_in[i] = out, li
                    changed = True
        return {i: frozenset(live_in[i]) for i in range(n)}

    def _step(self, bb, envt):
        res = []
        for (x, e) in FA._step(self, bb, envt):
            li = self._live_in.get(x, frozenset())
            res.append((x, tuple(kv for kv in e if kv[0] in li or (kv[1][0] == "discof" and kv[1][1] in li))))
        return res



# ------------------------------------------------------------------------------------------------
# appended: waypoint queries over feasible paths

def fa_reach_states(fa, states, avoid=frozenset(), cut_edges=frozenset()):
    """All (block, env) states of FA `fa` reachable from the given states (the given states included), not entering
    a block of `avoid` and not using an edge of `cut_edges`; None when the state cap is hit (the caller then falls
    back to block reachability, which over-approximates)."""
    seen = set()
    todo = [st for st in states if st[0] not in avoid]
    while todo:
        st = todo.pop()
        if st in seen:
            continue
        seen.add(st)
        if len(seen) > fa.STATE_CAP:
            return None
        for (x, e) in fa.step(st[0], st[1]):
            if (st[0], x) in cut_edges or x in avoid:
                continue
            todo.append((x, e))
    return seen


def fa_path_via(fa, waypoints, goal, avoid=frozenset(), cut_edges=frozenset()):
    """A feasible witness path entry -> w1 -> w2 -> .. -> goal that visits one block of each waypoint set in order
    (what is known about the tracked enum / bool locals is carried from entry through every waypoint, so a waypoint
    reached only with `x = A` cannot be left through the `x = B` arm of a later re-split), or None.
    waypoints: list of block collections; goal: block collection."""
    states = {(0, ())}
    for w in waypoints:
        w = set(w)
        r = fa_reach_states(fa, states, avoid, cut_edges)
        if r is None:
            # cap: plain block reachability through the waypoints (superset of the feasible paths)
            ba = fa.ba
            cur = [0]
            for w2 in list(waypoints):
                cur = [x for x in ba.reach_incl(cur, avoid=frozenset(avoid), cut_edges=frozenset(cut_edges)) if x in set(w2)]
                if not cur:
                    return None
            return ba.path(cur, goal, avoid=frozenset(avoid), cut_edges=frozenset(cut_edges), incl=True)
        states = {st for st in r if st[0] in w}
        if not states:
            return None
        # leave the waypoint: the states after executing it
        nxt = set()
        for st in states:
            for (x, e) in fa.step(st[0], st[1]):
                if (st[0], x) in cut_edges or x in avoid:
                    continue
                nxt.add((x, e))
        if not nxt:
            return None
        states = nxt
    p = fa.path([], goal, avoid=frozenset(avoid), cut_edges=frozenset(cut_edges), states=tuple(sorted(states, key=repr)))
    return p


# ------------------------------------------------------------------------------------------------
# appended: feasible paths that also decide `a == b` on field-less enums (derived PartialEq)

class FAX(FA):
    """FA that additionally follows what `#[derive(PartialEq)]` on a field-less enum compiles to, so that a two-variant
    enum used where a bool used to be (`if mode == Mode::A {..}` with `mode` a known variant, typically the argument of
    a helper that canon.py spliced into a call site that passes a literal variant) prunes the arm not taken:

        ("ref", local)      a shared borrow of a whole tracked local (`&x`, moved / reborrowed `&*r`)
        discriminant_value(r)  with r -> x and x a known variant      => ("disc", variant)
        Eq / Ne of two ("disc", ..) values                            => ("b", bool)
        copy of `*r` with r -> x                                       => the value of x

    Same guarantees as FA: only locals that are never borrowed mutably are tracked, unknown values take every arm."""

    _cache = {}
    _DISCR = re.compile(r"core::intrinsics::discriminant_value")

    def _tracked(self):
        b = self.b
        excluded = set()
        rel = set()
        for blk in b.blocks:
            for s in blk["stmts"]:
                if s["s"] != "assign":
                    continue
                rv = s["rv"]
                if (rv["k"] == "ref" and rv.get("mut")) or rv["k"] == "rawptr":
                    excluded.add(rv["place"]["l"])
            t = blk["term"]
            if t["t"] == "switch":
                p = op_place(t["discr"])
                if p is not None and not p["p"]:
                    rel.add(p["l"])
        changed = True
        while changed:
            changed = False
            for blk in b.blocks:
                for s in blk["stmts"]:
                    if s["s"] != "assign" or s["place"]["p"] or s["place"]["l"] not in rel:
                        continue
                    rv = s["rv"]
                    src = []
                    if rv["k"] == "use":
                        src = [op_place(rv["op"])]
                    elif rv["k"] == "unop" and rv["op"] == "Not":
                        src = [op_place(rv["a"])]
                    elif rv["k"] == "discr":
                        src = [rv["place"]] if not rv["place"]["p"] else []
                    elif rv["k"] == "agg" and rv.get("agg") == "adt":
                        src = [op_place(o) for o in rv["ops"]]
                    elif rv["k"] == "binop" and rv["op"] in ("Eq", "Ne"):
                        src = [op_place(rv["a"]), op_place(rv["b"])]
                    elif rv["k"] == "ref" and not rv.get("mut"):
                        src = [rv["place"]]
                    for p in src:
                        if p is not None and p["l"] not in rel and all(e == "deref" or e.startswith("as:") or e.startswith("f:") for e in p["p"]):
                            rel.add(p["l"])
                            changed = True
                t = blk["term"]
                if t["t"] == "call" and not t["dest"]["p"] and t["dest"]["l"] in rel and (self._is_try_branch(t) or call_matches(t, self._DISCR)):
                    p = op_place(t["args"][0]) if t["args"] else None
                    if p is not None and not p["p"] and p["l"] not in rel:
                        rel.add(p["l"])
                        changed = True
        return rel - excluded

    def _assign(self, env, s):
        dst = s["place"]
        l = dst["l"]
        if l in self.tracked and not dst["p"]:
            rv = s["rv"]
            v = None
            handled = False
            if rv["k"] == "ref" and not rv.get("mut"):
                handled = True
                p = rv["place"]
                if not p["p"] and p["l"] in self.tracked:
                    v = ("ref", p["l"])
                elif p["p"] == ["deref"]:
                    pv = env.get(p["l"])
                    v = pv if pv is not None and pv[0] == "ref" else None
            elif rv["k"] == "use":
                p = op_place(rv["op"])
                if p is not None and p["p"] == ["deref"]:
                    handled = True
                    pv = env.get(p["l"])
                    if pv is not None and pv[0] == "ref":
                        v = env.get(pv[1])
                        if v is not None and v[0] not in ("v", "b"):
                            v = None
            elif rv["k"] == "binop" and rv["op"] in ("Eq", "Ne"):
                handled = True
                a, c = self._op_val(rv["a"], env), self._op_val(rv["b"], env)
                if a is not None and c is not None and a[0] == "disc" and c[0] == "disc":
                    v = ("b", (a[1] == c[1]) == (rv["op"] == "Eq"))
            if handled:
                self._kill(env, l)
                if v is not None:
                    env[l] = v
                return
        FA._assign(self, env, s)

    def _step(self, bb, envt):
        t = self.b.blocks[bb]["term"]
        if t["t"] == "call" and call_matches(t, self._DISCR) and not t["dest"]["p"] and t["dest"]["l"] in self.tracked and t["args"]:
            env = self.env_before_term(bb, envt)
            a = self._op_val(t["args"][0], env)
            v = None
            if a is not None and a[0] == "ref":
                x = env.get(a[1])
                if x is not None and x[0] == "v":
                    v = ("disc", x[2])
            self._kill(env, t["dest"]["l"])
            if v is not None:
                env[t["dest"]["l"]] = v
            fe = self._freeze(env)
            return [(x, fe) for x in self.b.succ(bb)]
        return FA._step(self, bb, envt)



# ------------------------------------------------------------------------------------------------
# appended: FA with two more value-preserving steps (used by the jobserver rules C08 / C09)

class FAXM(FA):
    """FA that also follows
      * `Result::map_err(r, f)`: an `Ok(x)` stays `Ok(x)` (same payload), an `Err` stays an `Err` (payload unknown)
        - the `.map_err(RedoError::opaque_error)?` idiom between a helper's result and the caller's `?`;
      * `discriminant(x as V.f)`: the discriminant of a *payload* whose variant is known (`Ok(None)` / `Ok(Some(n))`
        matched as `match r { Ok(Some(1)) => .., Ok(None) => .. }`).
    Both only add knowledge about values, so the feasible paths stay a superset of the executable ones."""

    _cache = {}

    _MAP_ERR = re.compile(r"core::result::Result::map_err")

    @classmethod
    def _is_map_err(cls, t):
        return t["t"] == "call" and any(cls._MAP_ERR.fullmatch(p) for p in callee_paths(t)) and len(t.get("args", [])) == 2

    def _tracked(self):
        b = self.b
        rel = set(FA._tracked(self))
        excluded = set()
        for blk in b.blocks:
            for s in blk["stmts"]:
                if s["s"] == "assign":
                    rv = s["rv"]
                    if (rv["k"] == "ref" and rv.get("mut")) or rv["k"] == "rawptr":
                        excluded.add(rv["place"]["l"])
        changed = True
        while changed:
            changed = False
            for blk in b.blocks:
                for s in blk["stmts"]:
                    if s["s"] != "assign" or s["place"]["p"] or s["place"]["l"] not in rel:
                        continue
                    rv = s["rv"]
                    src = []
                    if rv["k"] == "use":
                        src = [op_place(rv["op"])]
                    elif rv["k"] == "unop" and rv["op"] == "Not":
                        src = [op_place(rv["a"])]
                    elif rv["k"] == "discr":
                        src = [rv["place"]]
                    elif rv["k"] == "agg" and rv.get("agg") == "adt":
                        src = [op_place(o) for o in rv["ops"]]
                    for p in src:
                        if p is not None and p["l"] not in rel and all(e.startswith("as:") or e.startswith("f:") for e in p["p"]):
                            rel.add(p["l"])
                            changed = True
                t = blk["term"]
                if t["t"] == "call" and not t["dest"]["p"] and t["dest"]["l"] in rel and (self._is_try_branch(t) or self._is_map_err(t)):
                    p = op_place(t["args"][0])
                    if p is not None and not p["p"] and p["l"] not in rel:
                        rel.add(p["l"])
                        changed = True
        return rel - excluded

    def _assign(self, env, s):
        dst = s["place"]
        rv = s["rv"]
        if rv["k"] == "discr" and rv["place"]["p"] and not dst["p"] and dst["l"] in self.tracked:
            pv = self._place_val(rv["place"], env)
            self._kill(env, dst["l"])
            if pv is not None and pv[0] == "v":
                env[dst["l"]] = ("disc", pv[2])
            return
        FA._assign(self, env, s)

    def _step(self, bb, envt):
        t = self.b.blocks[bb]["term"]
        if self._is_map_err(t) and not t["dest"]["p"] and t["dest"]["l"] in self.tracked:
            env = self.env_before_term(bb, envt)
            a = self._op_val(t["args"][0], env)
            v = None
            if a is not None and a[0] == "v" and a[1] == "core::result::Result":
                v = a if a[2] == "Ok" else ("v", a[1], "Err", ())
            self._kill(env, t["dest"]["l"])
            if v is not None:
                env[t["dest"]["l"]] = v
            fe = self._freeze(env)
            return [(x, fe) for x in self.b.succ(bb)]
        return FA._step(self, bb, envt)



# ------------------------------------------------------------------------------------------------
# appended: feasible paths that also decide `==` / `!=` between enum values of known variant

class FAx(FA):
    """FA that additionally follows shared references to tracked locals and evaluates the comparison a derived
    `PartialEq` of an enum performs once canon has spliced it in (`discriminant_value(&a) == discriminant_value(&b)`):
    when both variants are known along the path the bool is a constant and only one arm of the `if a == Enum::V` is
    feasible. Needed where a refactor turns "one extra call on one of two call chains" into one shared helper with an
    enum parameter that is a constant at each (spliced) call site. Extra abstract values:
        ("ref", local)     a shared reference to a tracked local (the referent's value is looked up at the use)
    Everything FA leaves unknown stays unknown (both arms feasible)."""

    _cache = {}
    _DISCR_VALUE = re.compile(r"core::intrinsics::discriminant_value")

    def _tracked(self):
        b = self.b
        excluded = set()
        rel = set()
        for blk in b.blocks:
            for s in blk["stmts"]:
                if s["s"] != "assign":
                    continue
                rv = s["rv"]
                if (rv["k"] == "ref" and rv.get("mut")) or rv["k"] == "rawptr":
                    excluded.add(rv["place"]["l"])
            t = blk["term"]
            if t["t"] == "switch":
                p = op_place(t["discr"])
                if p is not None and not p["p"]:
                    rel.add(p["l"])
        changed = True
        while changed:
            changed = False
            for blk in b.blocks:
                for s in blk["stmts"]:
                    if s["s"] != "assign" or s["place"]["p"] or s["place"]["l"] not in rel:
                        continue
                    rv = s["rv"]
                    src = []
                    if rv["k"] == "use":
                        src = [op_place(rv["op"])]
                    elif rv["k"] == "unop" and rv["op"] == "Not":
                        src = [op_place(rv["a"])]
                    elif rv["k"] == "discr":
                        src = [rv["place"]] if not rv["place"]["p"] else []
                    elif rv["k"] == "agg" and rv.get("agg") == "adt":
                        src = [op_place(o) for o in rv["ops"]]
                    elif rv["k"] == "binop" and rv["op"] in ("Eq", "Ne"):
                        src = [op_place(rv["a"]), op_place(rv["b"])]
                    elif rv["k"] == "ref" and not rv.get("mut") and rv["place"]["p"] in ([], ["deref"]):
                        src = [{"l": rv["place"]["l"], "p": []}]
                    for p in src:
                        if p is not None and p["l"] not in rel and all(e.startswith("as:") or e.startswith("f:") for e in p["p"]):
                            rel.add(p["l"])
                            changed = True
                t = blk["term"]
                if t["t"] == "call" and not t["dest"]["p"] and t["dest"]["l"] in rel and len(t.get("args", [])) == 1 and \
                        (self._is_try_branch(t) or any(self._DISCR_VALUE.fullmatch(q) for q in callee_paths(t))):
                    p = op_place(t["args"][0])
                    if p is not None and not p["p"] and p["l"] not in rel:
                        rel.add(p["l"])
                        changed = True
        return rel - excluded

    def _assign(self, env, s):
        dst = s["place"]
        l = dst["l"]
        if l in self.tracked and not dst["p"]:
            rv = s["rv"]
            v = None
            mine = False
            if rv["k"] == "ref" and not rv.get("mut"):
                mine = True
                p = rv["place"]
                if not p["p"] and p["l"] in self.tracked:
                    v = ("ref", p["l"])
                elif p["p"] == ["deref"]:
                    pv = env.get(p["l"])
                    if pv is not None and pv[0] == "ref":
                        v = pv
            elif rv["k"] == "binop" and rv["op"] in ("Eq", "Ne"):
                mine = True
                a, b_ = self._op_val(rv["a"], env), self._op_val(rv["b"], env)
                if a is not None and b_ is not None and a[0] == "disc" and b_[0] == "disc":
                    v = ("b", (a[1] == b_[1]) == (rv["op"] == "Eq"))
            if mine:
                self._kill(env, l)
                if v is not None:
                    env[l] = v
                return
        FA._assign(self, env, s)

    def _step(self, bb, envt):
        blk = self.b.blocks[bb]
        t = blk["term"]
        if t["t"] == "call" and not t["dest"]["p"] and t["dest"]["l"] in self.tracked and len(t.get("args", [])) == 1 \
                and any(self._DISCR_VALUE.fullmatch(q) for q in callee_paths(t)):
            env = self.env_before_term(bb, envt)
            a = self._op_val(t["args"][0], env)
            v = None
            if a is not None and a[0] == "ref":
                rv = env.get(a[1])
                if rv is not None and rv[0] == "v":
                    v = ("disc", rv[2])
            self._kill(env, t["dest"]["l"])
            if v is not None:
                env[t["dest"]["l"]] = v
            fe = self._freeze(env)
            return [(x, fe) for x in self.b.succ(bb)]
        return FA._step(self, bb, envt)
