#!/usr/bin/env python3
"""Pretty-print MIR facts of one body: ./sa/dump.py <facts-dir> <regex> [--all]"""
import sys
import os
sys.path.insert(0, os.path.dirname(os.path.abspath(__file__)))
from facts import Program, strip_generics


def pl(b, p):
    s = b.local_name(p["l"]) if not p["p"] else "_%d" % p["l"]
    if p["p"]:
        nm = b.local_name(p["l"])
        s = nm
    for e in p["p"]:
        if e == "deref":
            s = "(*%s)" % s
        elif e.startswith("f:"):
            s += "." + e[2:].split(".")[-1]
        elif e.startswith("as:"):
            s += " as " + e[3:]
        else:
            s += "[" + e + "]"
    return s


def op(b, o):
    if "copy" in o:
        return pl(b, o["copy"])
    if "move" in o:
        return "move " + pl(b, o["move"])
    if "const" in o:
        c = o["const"]
        for k in ("fn", "str", "int", "bool", "variant"):
            if k in c:
                r = "%s:%r" % (k, c[k])
                if "named" in c:
                    r += "(%s)" % c["named"]
                return r
        if "named" in c:
            return "named:" + c["named"]
        if c.get("zst"):
            return "zst:" + c["ty"]
        return "const:" + c.get("pretty", c["ty"])
    return str(o)


def rv(b, r):
    k = r["k"]
    if k == "use":
        return op(b, r["op"])
    if k == "ref":
        return ("&mut " if r["mut"] else "&") + pl(b, r["place"])
    if k == "rawptr":
        return "&raw " + pl(b, r["place"])
    if k == "cast":
        return "%s as %s (%s)" % (op(b, r["op"]), r["ty"], r["cast"])
    if k == "binop":
        return "%s(%s, %s)" % (r["op"], op(b, r["a"]), op(b, r["b"]))
    if k == "unop":
        return "%s(%s)" % (r["op"], op(b, r["a"]))
    if k == "discr":
        return "discr(%s)" % pl(b, r["place"])
    if k == "agg":
        what = r.get("adt") or r.get("def") or r["agg"]
        if "variant" in r:
            what += "::" + r["variant"]
        return "%s{%s}" % (what, ", ".join(op(b, x) for x in r["ops"]))
    return str(r)


def dump(b, out=sys.stdout):
    w = out.write
    w("== %s  [%s] %s args=%d blocks=%d\n" % (b.key, b.kind, b.span, b.arg_count, len(b.blocks)))
    for i, blk in enumerate(b.blocks):
        w(" bb%d%s:\n" % (i, " (cleanup)" if blk.get("cleanup") else ""))
        for s in blk["stmts"]:
            if s["s"] == "assign":
                w("    %s = %s   ; %s%s\n" % (pl(b, s["place"]), rv(b, s["rv"]), s["line"].split("/")[-1],
                                               " !" + s["macro"] if "macro" in s else ""))
            else:
                w("    setdiscr %s = %d\n" % (pl(b, s["place"]), s["variant"]))
        t = blk["term"]
        k = t["t"]
        ln = t.get("line", "").split("/")[-1] + (" !" + t["macro"] if "macro" in t else "")
        if k == "call":
            c = t.get("resolved") or t.get("callee") or ("indirect " + t.get("indirect", ""))
            if t.get("resolved") and t.get("callee") and strip_generics(t["resolved"]) != strip_generics(t["callee"]):
                c = "%s [via %s]" % (t["resolved"], t["callee"])
            w("    %s = CALL %s(%s) -> %s unwind %s   ; %s\n" % (
                pl(b, t["dest"]), c, ", ".join(op(b, a) for a in t["args"]),
                "bb%s" % t["target"] if "target" in t else "!", t.get("unwind"), ln))
        elif k == "switch":
            w("    SWITCH %s [%s] %s else bb%d   ; %s\n" % (op(b, t["discr"]), t["discr_ty"],
                                                           " ".join("%s->bb%d" % (v, tg) for v, tg in t["arms"]),
                                                           t["otherwise"], ln))
        elif k == "goto":
            w("    GOTO bb%d%s   ; %s\n" % (t["target"], " (false_edge bb%d)" % t["false_edge"] if "false_edge" in t else "", ln))
        elif k == "drop":
            w("    DROP %s : %s -> bb%d unwind %s  ; %s\n" % (pl(b, t["place"]), t["ty"], t["target"], t.get("unwind"), ln))
        elif k == "yield":
            w("    YIELD %s -> bb%d drop %s resume_arg %s ; %s\n" % (op(b, t["value"]), t["resume"], t.get("drop"), pl(b, t["resume_arg"]), ln))
        elif k == "assert":
            w("    ASSERT %s == %s (%s) -> bb%d ; %s\n" % (op(b, t["cond"]), t["expected"], t["msg"][:40], t["target"], ln))
        else:
            w("    %s ; %s\n" % (k.upper(), ln))


if __name__ == "__main__":
    prog = Program(sys.argv[1])
    for b in prog.find(sys.argv[2]):
        dump(b)
