"""Rule engine: obligations, known findings, evidence, reports."""
import json
import os
import sys
import time
import traceback

from facts import AnchorError

VERIF = os.path.dirname(os.path.dirname(os.path.abspath(__file__)))


class Ctx:
    def __init__(self, prog, cg, prop, tier):
        self.prog = prog
        self.cg = cg
        self.prop = prop
        self.tier = tier
        self.obs = []          # obligations
        self.notes = []
        self.rules = {}        # rule id -> description
        self.floors = []       # (rule, what, got, floor)
        self.undecided = []    # anchor problems

    def rule(self, rid, desc):
        self.rules[rid] = desc

    def ob(self, rid, key, ok, where="", detail="", witness=None, nontrivial=True):
        """Record one evaluated rule instance. `key` must be stable under reformatting:
        no line numbers, no block numbers."""
        assert rid in self.rules, rid
        self.obs.append({"rule": rid, "key": "%s|%s" % (rid, key), "ok": bool(ok), "where": where,
                         "detail": detail, "witness": witness, "nontrivial": nontrivial})
        return ok

    def floor(self, rid, what, got, floor):
        """Instance floor: fewer instances than confirmed by hand means the mechanism (or the
        analyser's view of it) is gone; that is a violation of `mechanism present`, not a pass."""
        self.floors.append((rid, what, got, floor))
        if got < floor:
            self.ob(rid, "floor:%s" % what, False, detail="only %d instance(s) of %s found, expected at least %d" % (got, what, floor))
        return got >= floor

    def note(self, s):
        self.notes.append(s)

    def where(self, body, bb):
        return "%s (%s bb%d)" % (body.line(bb), body.key, bb)


def load_known():
    p = os.path.join(VERIF, "known_findings.json")
    if not os.path.exists(p):
        return []
    return json.load(open(p))["findings"]


def finish(ctx, t0, seed, stats, level_explanation, assumptions, write_evidence=True, extra_coverage=None):
    prop = ctx.prop
    known = [k for k in load_known() if k["property"] == prop and k["status"] == "known"]
    known_keys = {k["key"]: k for k in known}
    viols = []
    known_hit = []
    for o in ctx.obs:
        if o["ok"]:
            continue
        # the thorough tier re-evaluates every rule on the second feature set; the same finding seen
        # there carries the same key behind the "F2|debug-jobserver|" prefix
        base_key = o["key"][len("F2|debug-jobserver|"):] if o["key"].startswith("F2|debug-jobserver|") else o["key"]
        if base_key in known_keys:
            known_hit.append((o, known_keys[base_key]))
        else:
            viols.append(o)
    os.makedirs(os.path.join(VERIF, "evidence", "replay"), exist_ok=True)
    lines = []
    for o, k in known_hit:
        lines.append("KNOWN-FINDING: property=%s %s [%s @ %s]" % (prop, k["what"], o["key"], o["where"]))
    for n, o in enumerate(viols):
        rp = os.path.join(VERIF, "evidence", "replay", "%s-%d.json" % (prop, n)) if write_evidence else os.devnull
        json.dump({"property": prop, "rule": o["rule"], "rule_text": ctx.rules[o["rule"]], "key": o["key"],
                   "where": o["where"], "detail": o["detail"], "witness": o["witness"],
                   "replay_cmd": "./check %s --tier %s --explain %s" % (prop, ctx.tier, o["rule"])}, open(rp, "w"), indent=1)
        sys.stderr.write("rule %s (%s)\n  @ %s\n  %s\n  key: %s\n" % (o["rule"], ctx.rules[o["rule"]], o["where"], o["detail"], o["key"]))
        lines.append("VIOLATION property=%s replay=%s" % (prop, rp))
    nobs = len(ctx.obs)
    ndis = sum(1 for o in ctx.obs if o["ok"])
    distinct = len({o["key"] for o in ctx.obs if o["nontrivial"]})
    samples = []
    seen_rules = set()
    for o in ctx.obs:
        if o["rule"] in seen_rules:
            continue
        seen_rules.add(o["rule"])
        samples.append({"rule": o["rule"], "rule_text": ctx.rules[o["rule"]], "instance": o["key"], "where": o["where"],
                        "holds": o["ok"], "detail": o["detail"]})
    ev = {
        "property_id": prop,
        "tier": ctx.tier,
        "seed": seed,
        "level": "other",
        "coverage": {
            "explanation": level_explanation,
            "obligations": nobs,
            "discharged": ndis,
            "evaluations": nobs,
            "distinct_nontrivial": distinct,
            "rule": "one evaluation = one rule instance (rule x anchored site) decided on the MIR of /repo's current tree; "
                    "distinct = distinct instance keys; non-trivial = the instance inspected at least one CFG path, call site or constant",
            "rules": [{"id": r, "text": d, "instances": sum(1 for o in ctx.obs if o["rule"] == r),
                       "holding": sum(1 for o in ctx.obs if o["rule"] == r and o["ok"])} for r, d in ctx.rules.items()],
            "samples": samples[:40],
            "floors": [{"rule": r, "what": w, "found": g, "floor": f} for r, w, g, f in ctx.floors],
            "analysed": stats,
            "known_findings_reported": [o["key"] for o, _ in known_hit],
            "notes": ctx.notes,
            "checker_cmd": "./check %s --tier %s" % (prop, ctx.tier),
            "trusted_base": ["rustc type checker and MIR construction (nightly 1.97)", "driver/redo-facts dump",
                             "sa/core.py CFG/value-flow/call-graph", "POSIX rename/fcntl/pipe semantics", "SQLite transaction atomicity"],
            "exhaustive": False,
        },
        "assumptions": assumptions,
        "wall_s": round(time.time() - t0, 3),
        "violations": len(viols),
    }
    if extra_coverage:
        ev["coverage"].update(extra_coverage)
    if write_evidence:
        json.dump(ev, open(os.path.join(VERIF, "evidence", "%s.json" % prop), "w"), indent=1)
    for l in lines:
        print(l)
    print("%s: %d rule instances, %d hold, %d known finding(s), %d violation(s) [%s tier, %.1fs]" % (
        prop, nobs, ndis, len(known_hit), len(viols), ctx.tier, time.time() - t0))
    return 1 if viols else 0
