"""Role queries: find the bodies that implement each mechanism by what they *do*, names second.

A navigational anchor that does not resolve uniquely raises AnchorError (check exits 2, no
verdict). Anchors that *are* the mechanism are reported by the rules themselves via floors.
"""
import re

from facts import AnchorError, strip_generics
from core import BA, call_matches, callee_paths, closure_sites

FORK_START = re.compile(r"jobserver::JobServerHandle::start")


def bodies_calling(prog, rx, unit=None):
    if isinstance(rx, str):
        rx = re.compile(rx)
    out = []
    for b in prog.bodies.values():
        if unit and b.unit != unit:
            continue
        if BA.of(b).calls(rx):
            out.append(b)
    return sorted(out, key=lambda b: b.key)


def the(bodies, what):
    if len(bodies) != 1:
        raise AnchorError("role %r resolved to %d bodies: %s" % (what, len(bodies), [b.key for b in bodies][:6]))
    return bodies[0]


def bodies_constructing(prog, adt_rx):
    if isinstance(adt_rx, str):
        adt_rx = re.compile(adt_rx)
    out = []
    for b in prog.bodies.values():
        live = b.reachable()
        for i, blk in enumerate(b.blocks):
            if i not in live or blk.get("cleanup"):
                continue
            if any(s["s"] == "assign" and s["rv"]["k"] == "agg" and s["rv"].get("agg") == "adt" and adt_rx.fullmatch(s["rv"]["adt"])
                   for s in blk["stmts"]):
                out.append(b)
                break
    return sorted(out, key=lambda b: b.key)


def agg_sites(body, adt_rx):
    """[(bb, idx, stmt)] aggregate constructions of an ADT in body (live, non-cleanup)."""
    if isinstance(adt_rx, str):
        adt_rx = re.compile(adt_rx)
    out = []
    live = body.reachable()
    for i, blk in enumerate(body.blocks):
        if i not in live or blk.get("cleanup"):
            continue
        for j, s in enumerate(blk["stmts"]):
            if s["s"] == "assign" and s["rv"]["k"] == "agg" and s["rv"].get("agg") == "adt" and adt_rx.fullmatch(s["rv"]["adt"]):
                out.append((i, j, s))
    return out


def scheduler(prog):
    """The body that constructs BuildJob values (today: builder::run's coroutine)."""
    return the(bodies_constructing(prog, r"builder::BuildJob"), "constructs BuildJob")


def stream_owner(prog):
    """The body that owns the job-future stream (calls FuturesUnordered::new): it must drain the
    stream before returning, whatever the scheduling passes nested in it do."""
    return the(bodies_calling(prog, r"futures_util::stream::futures_unordered::FuturesUnordered::new"), "creates the job-future stream")


def start_self(prog):
    """The body that looks up the .do file and forks it (calls paths::find_do_file)."""
    return the(bodies_calling(prog, r"paths::find_do_file"), "calls paths::find_do_file")


def record_new_state(prog):
    """The body that moves the output into place (the only caller of fs::rename)."""
    return the(bodies_calling(prog, r"std::fs::rename"), "calls std::fs::rename")


def job_start(prog):
    """The body that takes the dirtiness verdict and dispatches (calls the start_self body)."""
    ss = start_self(prog)
    cands = [b for b in bodies_calling(prog, re.escape(ss.key)) if b.key != ss.key]
    return the(cands, "calls %s" % ss.key)


def fork_closures(prog):
    """Closure bodies handed to JobServerHandle::start (run in the forked child):
    [(parent_body, call_bb, closure_body)]."""
    out = []
    for b in bodies_calling(prog, FORK_START):
        for i in BA.of(b).calls(FORK_START):
            t = b.blocks[i]["term"]
            for g in t.get("gargs", []):
                if "closure" in g:
                    ck = strip_generics(g["closure"])
                    if ck in prog.bodies:
                        out.append((b, i, prog.bodies[ck]))
    return out


def result_recorder(prog):
    """The coroutine that awaits the .do job and then records the result (calls the
    record_new_state body)."""
    rns = record_new_state(prog)
    return the([b for b in bodies_calling(prog, re.escape(rns.key))], "calls %s" % rns.key)


def unlocked_waiter(prog):
    """The coroutine returned by the body that forks `redo-unlocked` (the FORK_START caller that is
    not start_self): the coroutine constructed there that awaits a jobserver::Job."""
    ss = start_self(prog)
    forkers = [b for b in bodies_calling(prog, FORK_START) if b.key != ss.key and not b.key.startswith("jobserver::")]
    f = the(forkers, "forks redo-unlocked")
    out = []
    for (bb, j, dest, k, ops) in closure_sites(f):
        b = prog.bodies.get(k)
        if b is not None and b.coroutine and any((c or "").endswith("jobserver::Job as core::future::future::Future>::poll") for (_, _, _, c) in BA.of(b).awaits()):
            out.append(b)
    return the(out, "coroutine awaiting the redo-unlocked Job")


def dirtiness(prog):
    """The recursive dirtiness routine: the body that calls itself and File::deps."""
    out = []
    for b in bodies_calling(prog, r"state::File::deps"):
        if BA.of(b).calls(re.escape(b.key)):
            out.append(b)
    return the(out, "recursive body calling File::deps")


def event_loop(prog):
    """JobServer::block_on: the body that calls select() and polls the root future."""
    return the([b for b in bodies_calling(prog, r"nix::sys::select::select") if BA.of(b).calls(r".*future::future::Future::poll")],
               "calls select and Future::poll")


def ifchange_verdict(prog):
    """redo-ifchange's dirtiness callback (today the fn `should_build`; it may equally be a closure handed to
    builder::run): the bin-unit body that calls the shared deps::is_dirty with the default (persisting) callbacks,
    i.e. without building its own DirtyCallbacks as redo-ood does."""
    c = [b for b in bodies_calling(prog, r"deps::is_dirty", unit="bin") if not BA.of(b).calls(r"deps::DirtyCallbacksBuilder::.*")]
    return the(c, "bin-unit body that calls deps::is_dirty with the default callbacks (redo-ifchange's should_build)")


def lock_opener(prog):
    """The body that opens the lock file: state::LockManager::open, or - when that was merged into its caller - the
    body that opens a file and builds the LockManager value from it."""
    b = prog.bodies.get("state::LockManager::open")
    if b is not None:
        return b
    from core import BA
    cands = [b for b in bodies_constructing(prog, r"state::LockManager") if BA.of(b).calls(r"std::fs::OpenOptions::open|std::fs::File::(open|create)")]
    return the(cands, "the body that opens the lock file and builds the LockManager")


def lock_open_calls(prog, body):
    """Call blocks of `body` that open the lock file: calls of the opener, or (opener merged into `body`) its file-open calls."""
    from core import BA
    op = lock_opener(prog)
    ba = BA.of(body)
    if op.key != body.key:
        return ba.calls(re.escape(op.key))
    return ba.calls(r"std::fs::OpenOptions::open|std::fs::File::(open|create)")
